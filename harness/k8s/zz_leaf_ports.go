package k8s

import (
	"fmt"

	corev1 "k8s.io/api/core/v1"
	netv1 "k8s.io/api/networking/v1"
	metav1 "k8s.io/apimachinery/pkg/apis/meta/v1"

	"github.com/np-guard/netpol-analyzer/pkg/netpol/internal/common"
)

// Leaf harness (C01 list side, C03 eval side): the port part of ONE NetworkPolicy rule with rich inputs — up to two
// (thorough: three) port entries of nine kinds (protocol only, number, port..endPort on TCP or UDP, a port name on the
// rule's protocol, a second port name, SCTP) against a destination pod declaring up to two named container ports
// (symbolic numbers; protocols "", TCP, UDP) or against an IP destination. `ruleConnections` (what list uses) and
// `ruleConnsContain` (what eval uses) are both compared with the oracle zzNPPortMatch at a symbolic (protocol, port).

func zzLeafEntry(name string, kind int) netv1.NetworkPolicyPort {
	num := func(proto corev1.Protocol, withEnd bool) netv1.NetworkPolicyPort {
		p := zzPortVar(name + ".p")
		if !withEnd {
			return zzPortNum(proto, p)
		}
		e := zzPortVar(name + ".e")
		vf_Assume(p <= e)
		return zzPortRange(proto, p, e)
	}
	switch kind {
	case 0:
		return netv1.NetworkPolicyPort{}
	case 1:
		return netv1.NetworkPolicyPort{Protocol: zzProtoPtr(corev1.ProtocolUDP)}
	case 2:
		return netv1.NetworkPolicyPort{Port: zzIntStrPtr(zzPortVar(name + ".p"))} // protocol defaulted
	case 3:
		return num(corev1.ProtocolTCP, true)
	case 4:
		return num(corev1.ProtocolUDP, true)
	case 5:
		return zzPortName(corev1.ProtocolTCP, "http")
	case 6:
		return zzPortName(corev1.ProtocolUDP, "http")
	case 7:
		pp := zzPortName(corev1.ProtocolTCP, "metrics")
		pp.Protocol = nil
		return pp
	}
	return num(corev1.ProtocolSCTP, false)
}

const zzLeafKinds = 9

func ZZ_LEAF_RulePorts() {
	n := 1 + vf_Choose("n", 2+vf_Tier())
	var ports []netv1.NetworkPolicyPort
	named := false
	for i := 0; i < n; i++ {
		k := vf_Choose(fmt.Sprintf("e%d.kind", i), zzLeafKinds)
		named = named || (k >= 5 && k <= 7)
		ports = append(ports, zzLeafEntry(fmt.Sprintf("e%d", i), k))
	}
	np := &NetworkPolicy{NetworkPolicy: &netv1.NetworkPolicy{ObjectMeta: metav1.ObjectMeta{Name: "np", Namespace: "ns1"}}}
	x := zzProbeX()
	if n == 1 && vf_Choose("dst.ip", 2) == 1 {
		// an IP destination: numbers work, a port name is the documented fatal error
		ipb, err := np.parseNetpolCIDR("10.0.0.0/8", nil)
		vf_Assert(err == nil, "leaf-cidr-parsed")
		dst := &IPBlockPeer{IPBlock: ipb}
		conns, err := np.ruleConnections(ports, dst)
		ok, err2 := np.ruleConnsContain(ports, "TCP", vf_DecStr(x), dst)
		if named {
			vf_Assert(err != nil, "leaf-named-port-on-ip-is-an-error")
			vf_Assert(err2 != nil, "leaf-named-port-on-ip-is-an-error-eval")
			return
		}
		vf_Assert(err == nil && err2 == nil, "leaf-ip-no-error")
		if err == nil && err2 == nil {
			for _, proto := range zzProtos3 {
				vf_Assert(vf_Iff(zzDenCS(conns, proto, x), zzNPPortMatch(ports, proto, x, nil)), "leaf-ip-ports-denotation")
			}
			vf_Assert(vf_Iff(ok, zzNPPortMatch(ports, corev1.ProtocolTCP, x, nil)), "leaf-ip-eval-agrees")
		}
		return
	}
	// destination pod: http on "", TCP or UDP; optionally metrics on TCP or UDP
	var cps []corev1.ContainerPort
	cps = append(cps, corev1.ContainerPort{Name: "http", ContainerPort: zzPortVar("c.http"), Protocol: []corev1.Protocol{"", corev1.ProtocolTCP, corev1.ProtocolUDP}[vf_Choose("c.http.proto", 3)]})
	switch vf_Choose("c.metrics", 3) {
	case 1:
		cps = append(cps, corev1.ContainerPort{Name: "metrics", ContainerPort: zzPortVar("c.metrics"), Protocol: corev1.ProtocolTCP})
	case 2:
		cps = append(cps, corev1.ContainerPort{Name: "metrics", ContainerPort: zzPortVar("c.metrics"), Protocol: corev1.ProtocolUDP})
	}
	pod, err := PodFromCoreObject(zzPodObj("ns1", "d", map[string]string{"app": "d"}, cps, "").Pod)
	vf_Assert(err == nil, "leaf-pod-built")
	if err != nil {
		return
	}
	dst := &PodPeer{Pod: pod}
	w := &zzWPod{Ns: "ns1", Name: "d", Labels: map[string]string{"app": "d"}, Ports: cps}
	conns, err := np.ruleConnections(ports, dst)
	vf_Assert(err == nil, "leaf-no-error-on-pod-destination")
	if err != nil {
		return
	}
	var _ *common.ConnectionSet = conns
	for _, proto := range zzProtos3 {
		vf_Assert(vf_Iff(zzDenCS(conns, proto, x), zzNPPortMatch(ports, proto, x, w)), "leaf-ports-denotation")
	}
	qi := vf_Choose("q", 6) // the eval side: one protocol in one spelling per path
	spell := []string{"TCP", "UDP", "SCTP", "tcp", "udp", "sctp"}[qi]
	ok, err2 := np.ruleConnsContain(ports, spell, vf_DecStr(x), dst)
	vf_Assert(err2 == nil, "leaf-eval-no-error")
	vf_Assert(vf_Iff(ok, zzNPPortMatch(ports, zzProtos3[qi%3], x, w)), "leaf-eval-agrees")
	vf_Observe("conns", conns.String())
}

var zzProtos3 = []corev1.Protocol{corev1.ProtocolTCP, corev1.ProtocolUDP, corev1.ProtocolSCTP}

func zzProbeX() int64 {
	x := vf_Int64N("x", 17)
	vf_Assume(vf_And(x >= 1, x <= 65535))
	return x
}
