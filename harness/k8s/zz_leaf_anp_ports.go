package k8s

import (
	"fmt"

	corev1 "k8s.io/api/core/v1"
	apisv1a "sigs.k8s.io/network-policy-api/apis/v1alpha1"
)

// Leaf harness (C02 list side, C03 eval side): the port part of ONE AdminNetworkPolicy / BaselineAdminNetworkPolicy rule —
// nil, empty, or 1-2 entries of nine kinds (portNumber on TCP / defaulted / UDP, portRange on TCP / UDP / defaulted, the
// port names http, metrics and one no pod declares) against a destination pod declaring http on ""/TCP/UDP and optionally
// metrics; the admin `ruleConnections` (list) and `anpPortContains` (eval) vs the oracle zzAdmPortMatch at a symbolic point.

func zzLeafAdmEntry(name string, kind int) apisv1a.AdminNetworkPolicyPort {
	num := func(proto corev1.Protocol) apisv1a.AdminNetworkPolicyPort {
		return apisv1a.AdminNetworkPolicyPort{PortNumber: &apisv1a.Port{Protocol: proto, Port: zzPortVar(name + ".p")}}
	}
	rng := func(proto corev1.Protocol) apisv1a.AdminNetworkPolicyPort {
		s, e := zzPortVar(name+".s"), zzPortVar(name+".e")
		vf_Assume(s <= e)
		return apisv1a.AdminNetworkPolicyPort{PortRange: &apisv1a.PortRange{Protocol: proto, Start: s, End: e}}
	}
	nm := func(n string) apisv1a.AdminNetworkPolicyPort { return apisv1a.AdminNetworkPolicyPort{NamedPort: &n} }
	switch kind {
	case 0:
		return num(corev1.ProtocolTCP)
	case 1:
		return num("")
	case 2:
		return num(corev1.ProtocolUDP)
	case 3:
		return rng(corev1.ProtocolTCP)
	case 4:
		return rng(corev1.ProtocolUDP)
	case 5:
		return rng("")
	case 6:
		return nm("http")
	case 7:
		return nm("metrics")
	}
	return nm("nosuch")
}

func ZZ_LEAF_AdminRulePorts() {
	var ports *[]apisv1a.AdminNetworkPolicyPort
	n := vf_Choose("n", 4) // 0: nil, 1: empty list, 2: one entry, 3: two entries
	if n >= 1 {
		list := []apisv1a.AdminNetworkPolicyPort{}
		for i := 0; i < n-1; i++ {
			list = append(list, zzLeafAdmEntry(fmt.Sprintf("e%d", i), vf_Choose(fmt.Sprintf("e%d.kind", i), 9)))
		}
		ports = &list
	}
	x := zzProbeX()
	var cps []corev1.ContainerPort
	cps = append(cps, corev1.ContainerPort{Name: "http", ContainerPort: zzPortVar("c.http"), Protocol: []corev1.Protocol{"", corev1.ProtocolTCP, corev1.ProtocolUDP}[vf_Choose("c.http.proto", 3)]})
	if vf_Choose("c.metrics", 2) == 1 {
		cps = append(cps, corev1.ContainerPort{Name: "metrics", ContainerPort: zzPortVar("c.metrics"), Protocol: corev1.ProtocolUDP})
	}
	pod, err := PodFromCoreObject(zzPodObj("ns1", "d", map[string]string{"app": "d"}, cps, "").Pod)
	vf_Assert(err == nil, "admleaf-pod-built")
	if err != nil {
		return
	}
	dst := &PodPeer{Pod: pod}
	w := &zzWPod{Ns: "ns1", Name: "d", Labels: map[string]string{"app": "d"}, Ports: cps}
	conns, err := ruleConnections(ports, dst)
	vf_Assert(err == nil, "admleaf-no-error")
	if err != nil {
		return
	}
	for _, proto := range zzProtos3 {
		vf_Assert(vf_Iff(zzDenCS(conns, proto, x), zzAdmPortMatch(ports, proto, x, w)), "admleaf-ports-denotation")
	}
	qi := vf_Choose("q", 3)
	spell := []string{"TCP", "udp", "SCTP"}[qi]
	ok, err2 := anpPortContains(ports, spell, vf_DecStr(x), dst)
	vf_Assert(err2 == nil, "admleaf-eval-no-error")
	vf_Assert(vf_Iff(ok, zzAdmPortMatch(ports, zzProtos3[qi%3], x, w)), "admleaf-eval-agrees")
	vf_Observe("conns", conns.String())
}
