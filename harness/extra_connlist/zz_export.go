package connlist

import "github.com/np-guard/netpol-analyzer/pkg/manifests/parser"

// ZZConnsFromObjects exposes the typed-object entry of the analyzer to harnesses of other packages
// (injected by overlay only; not part of the repository).
func ZZConnsFromObjects(ca *ConnlistAnalyzer, objs []parser.K8sObject) ([]Peer2PeerConnection, []Peer, error) {
	return ca.connsListFromParsedResources(objs)
}
