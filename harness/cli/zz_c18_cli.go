package cli

import (
	corev1 "k8s.io/api/core/v1"
	netv1 "k8s.io/api/networking/v1"
	metav1 "k8s.io/apimachinery/pkg/apis/meta/v1"
	"k8s.io/cli-runtime/pkg/resource"

	"github.com/np-guard/netpol-analyzer/pkg/manifests/fsscanner"
	"github.com/np-guard/netpol-analyzer/pkg/manifests/parser"
	"github.com/np-guard/netpol-analyzer/pkg/netpol/connlist"
	"github.com/np-guard/netpol-analyzer/pkg/netpol/diff"
)

// C18 (partial, in-process): the bodies of the list and diff commands (runListCommand / runDiffCommand with their
// flag variables) print exactly the string the library returns for the same options, fail exactly when the library
// call fails, and the resource-info API agrees with the directory API. The manifest scanner and standard output are
// environment (vf_RegisterDir / vf_CaptureStdout; natively real files and a pipe). Not covered: cobra flag parsing,
// the process exit status, -f FILE (file I/O), json/csv (cannot carry symbolic text), the live-cluster mode.

func zzC18Docs(name string, withPolicy bool, extra int) []*resource.Info {
	cports := []corev1.ContainerPort{{Name: "http", ContainerPort: 8080, Protocol: corev1.ProtocolTCP}}
	objs := []parser.K8sObject{
		zzNsObj("ns1", nil),
		zzDeployObj("ns1", "a", map[string]string{"app": "a"}, cports),
		zzDeployObj("ns1", "b", map[string]string{"app": "b"}, nil),
		zzDeployObj("ns2", "a", map[string]string{"app": "a"}, nil),
	}
	if withPolicy {
		p, e := zzPortVar(name+".p"), zzPortVar(name+".e")
		vf_Assume(p <= e)
		ports := []netv1.NetworkPolicyPort{zzPortRange(corev1.ProtocolTCP, p, e)}
		objs = append(objs, zzNetpolObj("ns1", "np1", netv1.NetworkPolicySpec{
			PodSelector: metav1.LabelSelector{MatchLabels: map[string]string{"app": "a"}},
			PolicyTypes: []netv1.PolicyType{netv1.PolicyTypeIngress, netv1.PolicyTypeEgress},
			Ingress: []netv1.NetworkPolicyIngressRule{{From: []netv1.NetworkPolicyPeer{{PodSelector: zzSel("app", "b")}, {NamespaceSelector: zzSel("env", "x"), PodSelector: zzSel("app", "q")}},
				Ports: ports}},
			Egress: []netv1.NetworkPolicyEgressRule{{To: []netv1.NetworkPolicyPeer{{IPBlock: &netv1.IPBlock{CIDR: "10.0.0.0/8", Except: []string{"10.1.0.0/16"}}}}, Ports: ports}},
		}))
	}
	infos := zzInfosOf(objs)
	switch extra {
	case 1: // a kind the analysis does not use
		bi, _ := zzBadInfo(0)
		infos = zzInsertInfo(infos, 1, bi)
	case 2: // a used kind that fails schema conversion (a severe error)
		bi, _ := zzBadInfo(2)
		infos = zzInsertInfo(infos, 2, bi)
	case 3: // a document the analysis cannot survive
		infos = append(infos, zzC13Fatal())
	}
	return infos
}

var zzC18Formats = []string{"txt", "md", "dot"}

func ZZ_C18_ListCommand() {
	extra := vf_Choose("extra", 4)
	infos := zzC18Docs("np", vf_Choose("policy", 2) == 1, extra)
	var badAt []int
	if vf_Choose("broken", 2) == 1 {
		badAt = []int{vf_Choose("broken.pos", 2) * len(infos)}
	}
	dirPath = vf_RegisterDir("c18", infos, badAt, nil)
	output = zzC18Formats[vf_Choose("format", len(zzC18Formats))]
	exposureAnalysis = vf_Choose("exposure", 2) == 1
	focusWorkload = []string{"", "a", "ns1/a", "nosuch"}[vf_Choose("focus", 4)]
	stopOnFirstError = vf_Choose("fail", 2) == 1
	quiet, verbose = vf_Choose("verbosity", 3) == 1, false
	if !quiet {
		verbose = vf_Choose("verbosity", 3) == 2
	}
	outFile = ""

	// the library, same options
	opts := []connlist.ConnlistAnalyzerOption{connlist.WithFocusWorkload(focusWorkload), connlist.WithOutputFormat(output), connlist.WithMuteErrsAndWarns()}
	if stopOnFirstError {
		opts = append(opts, connlist.WithStopOnError())
	}
	if exposureAnalysis {
		opts = append(opts, connlist.WithExposureAnalysis())
	}
	lib := connlist.NewConnlistAnalyzer(opts...)
	conns, _, lerr := lib.ConnlistFromDirPath(dirPath)
	want := ""
	if lerr == nil {
		want, lerr = lib.ConnectionsListToString(conns)
	}

	var rerr error
	out := vf_CaptureStdout(func() { rerr = runListCommand() })
	vf_Assert((rerr != nil) == (lerr != nil), "command-fails-exactly-when-the-library-fails")
	if rerr != nil || lerr != nil {
		return
	}
	vf_Assert(out == want, "stdout-is-the-library-string")

	// the resource-info API on the scanned documents
	scanned, _ := fsscanner.GetResourceInfosFromDirPath([]string{dirPath}, true, stopOnFirstError)
	lib2 := connlist.NewConnlistAnalyzer(opts...)
	conns2, _, err2 := lib2.ConnlistFromResourceInfos(scanned)
	if len(badAt) > 0 && stopOnFirstError {
		return // the directory API stops at the unreadable file; the resource-info API never sees it
	}
	vf_Assert(err2 == nil, "resource-info-api-succeeds-where-the-directory-api-does")
	if err2 == nil {
		text2, err := lib2.ConnectionsListToString(conns2)
		vf_Assert(err == nil && text2 == want, "resource-info-api-gives-the-same-report")
	}
	vf_Observe("conns", len(conns))
}

func ZZ_C18_DiffCommand() {
	infos1 := zzC18Docs("r1", true, vf_Choose("extra1", 4))
	infos2 := zzC18Docs("r2", vf_Choose("policy2", 2) == 1, vf_Choose("extra2", 3))
	var bad1 []int
	if vf_Choose("broken1", 2) == 1 {
		bad1 = []int{0}
	}
	dir1 = vf_RegisterDir("c18a", infos1, bad1, nil)
	dir2 = vf_RegisterDir("c18b", infos2, nil, nil)
	dirPath = ""
	outFormat = zzC18Formats[vf_Choose("format", len(zzC18Formats))]
	stopOnFirstError = vf_Choose("fail", 2) == 1
	quiet, verbose = false, false
	outFile = ""

	opts := []diff.DiffAnalyzerOption{diff.WithOutputFormat(outFormat), diff.WithArgNames("dir1", "dir2")}
	if stopOnFirstError {
		opts = append(opts, diff.WithStopOnError())
	}
	lib := diff.NewDiffAnalyzer(opts...)
	d, lerr := lib.ConnDiffFromDirPaths(dir1, dir2)
	want := ""
	if lerr == nil {
		want, lerr = lib.ConnectivityDiffToString(d)
	}
	var rerr error
	out := vf_CaptureStdout(func() { rerr = runDiffCommand() })
	vf_Assert((rerr != nil) == (lerr != nil), "command-fails-exactly-when-the-library-fails")
	if rerr != nil || lerr != nil {
		return
	}
	vf_Assert(out == want, "stdout-is-the-library-string")
}
