package cli

import (
	"fmt"

	corev1 "k8s.io/api/core/v1"
	"k8s.io/apimachinery/pkg/types"

	"github.com/np-guard/netpol-analyzer/pkg/netpol/eval"
)

var zzProtos3 = []corev1.Protocol{corev1.ProtocolTCP, corev1.ProtocolUDP, corev1.ProtocolSCTP}

// C03 through the eval command: validateEvalFlags + runEvalCommand (the body of `k8snetpolicy eval --dirpath`)
// against the list side (an engine built from the same documents), for every kind of query the property names:
// pod-to-pod, IP-to-pod, pod-to-IP; a pod to itself. The manifest scanner and standard output are environment
// (vf_RegisterDir / vf_CaptureStdout); under native replay real files are written and the real scanner reads them.
func ZZ_C03_CLIEval() {
	policy := vf_Choose("policy", 3)
	quickAdm := policy == 2 && vf_Tier() == 0 // quick: the admin-policy worlds keep the other dimensions fixed
	nsObjs := quickAdm || vf_Choose("nsObjs", 2) == 1
	g := zzBaseWorldK(true, nsObjs, true)
	switch policy {
	case 1:
		if vf_Tier() > 0 {
			g.addNP(g.zzGenNPx("np1", "ns1", false, true))
		} else {
			g.ConcreteIP = true // quick: the policy's ipBlock is 10.0.0.0/8 except 10.1.0.0/16; the queried address stays symbolic
			g.addNP(g.zzGenNPMenu("np1", "ns1", 2, zzNPeers, 2))
		}
	case 2:
		// admin policies: two ANPs given in an order that may differ from their priority order, optionally a BANP
		ing := vf_Choose("adm.dir", 2) == 0
		p0, p1 := vf_Int32N("anp0.prio", 10), vf_Int32N("anp1.prio", 10)
		vf_Assume(vf_And(p0 >= 0, p0 <= 1000, p1 >= 0, p1 <= 1000, p0 != p1))
		if quickAdm {
			g.addANP(g.zzGenANPx("anp0", p0, ing, 1, 2, 2, 1))
		} else {
			g.addANP(g.zzGenANPx("anp0", p0, ing, 1, 2, 2, 3))
		}
		g.addANP(g.zzGenANPx("anp1", p1, ing, 1, 1, 1, 1))
		if vf_Choose("banp", 2) == 1 {
			g.addBANP(g.zzGenBANPx(ing, 1, 1, 1, 1))
		}
	}
	// the list side
	pe, err := eval.NewPolicyEngineWithObjects(g.Objs)
	vf_Assert(err == nil, "engine-built")
	peers, err := pe.GetPeersList()
	vf_Assert(err == nil, "peers-listed")
	find := func(ns, name string) eval.Peer {
		for _, p := range peers {
			if !p.IsPeerIPType() && p.Namespace() == ns && p.Name() == name {
				return p
			}
		}
		return nil
	}
	pods := [][2]string{{"ns1", "a"}, {"ns1", "b"}, {"ns2", "c"}}
	x := vf_Int64N("x", 17)
	vf_Assume(vf_And(x >= 1, x <= 65535))
	addr := vf_Uint32("addr")
	q := vf_Choose("proto", 3)
	proto := []string{"tcp", "UDP", "sctp"}[q]

	// the query
	kind := vf_Choose("query", 4) // 0 pod->pod, 1 ip->pod, 2 pod->ip, 3 pod->itself
	si, di := vf_Choose("src", 3), vf_Choose("dst", 3)
	sourcePod, destinationPod = types.NamespacedName{Namespace: defaultNs}, types.NamespacedName{Namespace: defaultNs}
	srcExternalIP, dstExternalIP = "", ""
	var sPeer, dPeer eval.Peer
	var ipPeerOf func(p eval.Peer) bool
	switch kind {
	case 0:
		vf_Assume(si != di)
		sourcePod = types.NamespacedName{Namespace: pods[si][0], Name: pods[si][1]}
		destinationPod = types.NamespacedName{Namespace: pods[di][0], Name: pods[di][1]}
		sPeer, dPeer = find(pods[si][0], pods[si][1]), find(pods[di][0], pods[di][1])
	case 1:
		srcExternalIP = vf_IPStr(addr)
		destinationPod = types.NamespacedName{Namespace: pods[di][0], Name: pods[di][1]}
		dPeer = find(pods[di][0], pods[di][1])
	case 2:
		sourcePod = types.NamespacedName{Namespace: pods[si][0], Name: pods[si][1]}
		dstExternalIP = vf_IPStr(addr)
		sPeer = find(pods[si][0], pods[si][1])
	default:
		sourcePod = types.NamespacedName{Namespace: pods[si][0], Name: pods[si][1]}
		destinationPod = sourcePod
	}
	_ = ipPeerOf
	port = vf_DecStr(x)
	protocol = proto
	// invocation variants: plain; --fail (the documents are all readable); the last document (a policy if there is
	// one) or the first pod placed in a sub-directory
	variant := 0
	if !quickAdm {
		variant = vf_Choose("variant", 4)
	}
	stopOnFirstError = variant == 1
	var nested []int
	switch variant {
	case 2:
		nested = []int{len(g.Objs) - 1}
	case 3:
		nested = []int{0}
	}
	dirPath = vf_RegisterDir("c03", zzInfosOf(g.Objs), nil, nested)

	// what list says for the point
	var want bool
	listOK := true
	switch kind {
	case 0:
		conns, lerr := pe.AllAllowedConnectionsBetweenWorkloadPeers(sPeer, dPeer)
		if lerr != nil {
			listOK = false
		} else {
			want = conns.Contains(vf_DecStr(x), string(zzProtos3[q]))
		}
	case 1, 2:
		for _, p := range peers {
			if !p.IsPeerIPType() {
				continue
			}
			r := p.String()
			in := vf_And(vf_IPRangeLo(r) <= addr, addr <= vf_IPRangeHi(r))
			var conns interface {
				Contains(port, protocol string) bool
			}
			var lerr error
			if kind == 1 {
				conns, lerr = pe.AllAllowedConnectionsBetweenWorkloadPeers(p, dPeer)
			} else {
				conns, lerr = pe.AllAllowedConnectionsBetweenWorkloadPeers(sPeer, p)
			}
			if lerr != nil {
				listOK = false
				break
			}
			want = vf_Or(want, vf_And(in, conns.Contains(vf_DecStr(x), string(zzProtos3[q]))))
		}
	default:
		want = true
	}
	if !listOK {
		return // list cannot analyse this pair (documented named-port-on-IP deviation): eval may fail too
	}

	verr := validateEvalFlags()
	vf_Assert(verr == nil, "eval-flags-accepted")
	if verr != nil {
		return
	}
	var rerr error
	out := vf_CaptureStdout(func() { rerr = runEvalCommand() })
	vf_Assert(rerr == nil, "eval-answers-where-list-does")
	if rerr != nil {
		return
	}
	src, dst := srcExternalIP, dstExternalIP
	if src == "" {
		src = sourcePod.String()
	}
	if dst == "" {
		dst = destinationPod.String()
	}
	head := fmt.Sprintf("%v => %v over %s/%s: ", src, dst, proto, vf_DecStr(x))
	isTrue, isFalse := out == head+"true\n", out == head+"false\n"
	vf_Assert(vf_Or(isTrue, isFalse), "eval-prints-one-verdict-line")
	if kind == 3 {
		vf_Assert(isTrue, "eval-pod-to-itself-allowed")
		return
	}
	vf_Assert(vf_Iff(isTrue, want), "eval-equals-list")
	vf_Observe("query", kind)
}
