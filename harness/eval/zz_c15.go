package eval

import (
	"fmt"

	corev1 "k8s.io/api/core/v1"
	netv1 "k8s.io/api/networking/v1"
	metav1 "k8s.io/apimachinery/pkg/apis/meta/v1"
	"k8s.io/apimachinery/pkg/runtime"
	apisv1a "sigs.k8s.io/network-policy-api/apis/v1alpha1"

	"github.com/np-guard/netpol-analyzer/pkg/manifests/parser"
)

// C15 universe: objects a history may insert / update / delete
type zzC15 struct {
	nsProd, nsDev *corev1.Namespace
	p1, p2        *corev1.Pod
	p1L, p1O      *corev1.Pod // updates of p1: other labels under the same owner / same labels under another owner
	npA, npB      *netv1.NetworkPolicy // two variants under one name
	anpX, anpY    *apisv1a.AdminNetworkPolicy
	anpZ          *apisv1a.AdminNetworkPolicy
	curZ          bool
	banp          *apisv1a.BaselineAdminNetworkPolicy
	// ghost state: what is currently in the engine
	curNs   *corev1.Namespace
	curP1   *corev1.Pod
	curP2   bool
	curNP   *netv1.NetworkPolicy
	curX    bool
	curY    bool
	curBANP bool
}

func zzAdmAllRule(act apisv1a.AdminNetworkPolicyRuleAction, name string) []apisv1a.AdminNetworkPolicyIngressRule {
	s, e := zzPortVar(name+".s"), zzPortVar(name+".e")
	vf_Assume(s <= e)
	return []apisv1a.AdminNetworkPolicyIngressRule{{Action: act,
		From:  []apisv1a.AdminNetworkPolicyIngressPeer{{Namespaces: &metav1.LabelSelector{}}},
		Ports: &[]apisv1a.AdminNetworkPolicyPort{{PortRange: &apisv1a.PortRange{Protocol: corev1.ProtocolTCP, Start: s, End: e}}}}}
}

func zzNewC15() *zzC15 {
	u := &zzC15{}
	u.nsProd = zzNsObj("ns1", map[string]string{"env": "prod"}).Namespace
	u.nsDev = zzNsObj("ns1", map[string]string{"env": "dev"}).Namespace
	u.p1 = zzPodObj("ns1", "p1", map[string]string{"app": "a"}, nil, "oa").Pod
	u.p2 = zzPodObj("ns1", "p2", map[string]string{"app": "b"}, nil, "ob").Pod
	u.p1L = zzPodObj("ns1", "p1", map[string]string{"app": "c"}, nil, "oa").Pod
	u.p1O = zzPodObj("ns1", "p1", map[string]string{"app": "a"}, nil, "oz").Pod
	pa, ea := zzPortVar("npA.p"), zzPortVar("npA.e")
	vf_Assume(pa <= ea)
	u.npA = zzNetpolObj("ns1", "np1", netv1.NetworkPolicySpec{
		PodSelector: metav1.LabelSelector{MatchLabels: map[string]string{"app": "a"}},
		Ingress: []netv1.NetworkPolicyIngressRule{{From: []netv1.NetworkPolicyPeer{{PodSelector: zzSel("app", "b")}},
			Ports: []netv1.NetworkPolicyPort{zzPortRange(corev1.ProtocolTCP, pa, ea)}}},
	}).NetworkPolicy
	pb, eb := zzPortVar("npB.p"), zzPortVar("npB.e")
	vf_Assume(pb <= eb)
	u.npB = zzNetpolObj("ns1", "np1", netv1.NetworkPolicySpec{
		PodSelector: metav1.LabelSelector{MatchLabels: map[string]string{"app": "a"}},
		Ingress: []netv1.NetworkPolicyIngressRule{{From: []netv1.NetworkPolicyPeer{{NamespaceSelector: zzSel("env", "prod")}},
			Ports: []netv1.NetworkPolicyPort{zzPortRange(corev1.ProtocolTCP, pb, eb)}}},
	}).NetworkPolicy
	px, py, pz := zzPrio("x.prio"), zzPrio("y.prio"), zzPrio("z.prio")
	vf_Assume(vf_And(px != py, px != pz, py != pz))
	u.anpZ = zzSimpleANP("z", pz).AdminNetworkPolicy
	u.anpZ.Spec.Ingress[0].Action = apisv1a.AdminNetworkPolicyRuleActionDeny // all ports
	u.anpX = zzSimpleANP("x", px).AdminNetworkPolicy
	u.anpX.Spec.Ingress = zzAdmAllRule(apisv1a.AdminNetworkPolicyRuleActionDeny, "x")
	u.anpY = zzSimpleANP("y", py).AdminNetworkPolicy
	// y: Allow on all ports (zzSimpleANP)
	g := &zzGen{W: &zzWorld{}, Book: &zzCidrBook{}}
	u.banp = g.zzGenBANPx(true, 1, 1, 1, 1)
	u.banp.Spec.Ingress[0].Action = apisv1a.BaselineAdminNetworkPolicyRuleActionDeny
	return u
}

const zzC15NumOps = 23

// apply performs operation k on the engine and, if it succeeded, on the ghost state
func (u *zzC15) apply(pe *PolicyEngine, k int) {
	var err error
	switch k {
	case 0:
		if err = pe.InsertObject(u.nsProd); err == nil {
			u.curNs = u.nsProd
		}
	case 1:
		if err = pe.InsertObject(u.nsDev); err == nil {
			u.curNs = u.nsDev
		}
	case 2:
		if err = pe.DeleteObject(u.nsProd); err == nil {
			u.curNs = nil
		}
	case 3:
		if err = pe.InsertObject(u.p1); err == nil {
			u.curP1 = u.p1
		}
	case 4:
		if err = pe.DeleteObject(u.p1); err == nil {
			u.curP1 = nil
		}
	case 5:
		if err = pe.InsertObject(u.p2); err == nil {
			u.curP2 = true
		}
	case 6:
		if err = pe.DeleteObject(u.p2); err == nil {
			u.curP2 = false
		}
	case 7:
		if err = pe.InsertObject(u.npA); err == nil {
			u.curNP = u.npA
		}
	case 8:
		if err = pe.InsertObject(u.npB); err == nil {
			u.curNP = u.npB
		}
	case 9:
		if err = pe.DeleteObject(u.npA); err == nil {
			u.curNP = nil
		}
	case 10:
		if err = pe.InsertObject(u.anpX); err == nil {
			u.curX = true
		}
	case 11:
		if err = pe.DeleteObject(u.anpX); err == nil {
			u.curX = false
		}
	case 12:
		if err = pe.InsertObject(u.anpY); err == nil {
			u.curY = true
		}
	case 13:
		if err = pe.DeleteObject(u.anpY); err == nil {
			u.curY = false
		}
	case 14:
		if err = pe.InsertObject(u.banp); err == nil {
			u.curBANP = true
		}
	case 15:
		if err = pe.DeleteObject(u.banp); err == nil {
			u.curBANP = false
		}
	case 16:
		_, _ = pe.CheckIfAllowed("ns1/p2", "ns1/p1", "TCP", "80")
	case 17:
		if err = pe.InsertObject(u.anpZ); err == nil {
			u.curZ = true
		}
	case 18:
		if err = pe.DeleteObject(u.anpZ); err == nil {
			u.curZ = false
		}
	case 19: // update of pod p1: other labels, same owner
		if err = pe.InsertObject(u.p1L); err == nil {
			u.curP1 = u.p1L
		}
	case 20: // update of pod p1: same labels, another owner
		if err = pe.InsertObject(u.p1O); err == nil {
			u.curP1 = u.p1O
		}
	case 21: // ClearResources: nothing is left
		pe.ClearResources()
		u.curNs, u.curP1, u.curP2, u.curNP, u.curX, u.curY, u.curZ, u.curBANP = nil, nil, false, nil, false, false, false, false
	case 22: // SetResources = the InsertObject calls it documents (namespaces, policies, pods), stopping at the first error
		err = pe.SetResources([]*netv1.NetworkPolicy{u.npB}, []*corev1.Pod{u.p1, u.p2}, []*corev1.Namespace{u.nsProd})
		u.curNs = u.nsProd
		if u.curNP == nil {
			u.curNP = u.npB
			u.curP1, u.curP2 = u.p1, true
			vf_Assert(err == nil, "setresources-succeeds")
		} else {
			vf_Assert(err != nil, "setresources-duplicate-policy-error")
		}
	}
}

// current objects, policies first (the order a fresh load would use does not matter for the result)
func (u *zzC15) objects() []parser.K8sObject {
	var objs []parser.K8sObject
	if u.curNs != nil {
		objs = append(objs, parser.K8sObject{Kind: parser.Namespace, Namespace: u.curNs})
	}
	if u.curP1 != nil {
		objs = append(objs, parser.K8sObject{Kind: parser.Pod, Pod: u.curP1})
	}
	if u.curP2 {
		objs = append(objs, parser.K8sObject{Kind: parser.Pod, Pod: u.p2})
	}
	if u.curNP != nil {
		objs = append(objs, parser.K8sObject{Kind: parser.NetworkPolicy, NetworkPolicy: u.curNP})
	}
	if u.curX {
		objs = append(objs, parser.K8sObject{Kind: parser.AdminNetworkPolicy, AdminNetworkPolicy: u.anpX})
	}
	if u.curY {
		objs = append(objs, parser.K8sObject{Kind: parser.AdminNetworkPolicy, AdminNetworkPolicy: u.anpY})
	}
	if u.curZ {
		objs = append(objs, parser.K8sObject{Kind: parser.AdminNetworkPolicy, AdminNetworkPolicy: u.anpZ})
	}
	if u.curBANP {
		objs = append(objs, parser.K8sObject{Kind: parser.BaselineAdminNetworkPolicy, BaselineAdminNetworkPolicy: u.banp})
	}
	return objs
}

var _ runtime.Object = (*corev1.Pod)(nil)

// C15: after any history of L operations from a small base state, CheckIfAllowed answers what a fresh
// engine holding the same current objects answers; no operation crashes.
func ZZ_C15_History() {
	u := zzNewC15()
	pe := NewPolicyEngine()
	// base state: namespace and both pods present; optionally a NetworkPolicy variant and the three ANPs
	u.apply(pe, 0)
	u.apply(pe, 3)
	u.apply(pe, 5)
	switch vf_Choose("base.np", 3) {
	case 1:
		u.apply(pe, 7)
	case 2:
		u.apply(pe, 8)
	}
	if vf_Choose("base.anps", 2) == 1 {
		u.apply(pe, 10)
		u.apply(pe, 12)
		u.apply(pe, 17)
	}
	L := 2
	if vf_Tier() > 0 {
		L = 3
	}
	u.apply(pe, 16) // one query already cached
	var trace string
	for i := 0; i < L; i++ {
		k := vf_Choose(fmt.Sprintf("op%d", i), zzC15NumOps)
		trace += fmt.Sprintf("%d,", k)
		u.apply(pe, k)
		if i == 0 && vf_Choose("q0", 2) == 1 {
			u.apply(pe, 16)
		}
	}
	got, err := pe.CheckIfAllowed("ns1/p2", "ns1/p1", "TCP", "80")
	if u.curNs == nil {
		// pods whose Namespace object was deleted: the object-by-object API reports an error while a bulk
		// load would invent the namespace; the property does not fix which "fresh engine" is meant, so this
		// state is outside the comparison (crash freedom above still applies)
		return
	}
	fresh, ferr := NewPolicyEngineWithObjects(u.objects())
	vf_Assert(ferr == nil, "fresh-engine-built")
	want, err2 := fresh.CheckIfAllowed("ns1/p2", "ns1/p1", "TCP", "80")
	vf_Observe("trace", trace)
	vf_Assert((err == nil) == (err2 == nil), "history-independent-error")
	if err == nil && err2 == nil {
		vf_Assert(vf_Iff(got, want), "history-independent-answer")
	}
}

// C15: a verdict cached for one query never answers a different query (other direction, protocol, port or
// protocol spelling) — the cache key separates everything the verdict depends on.
func ZZ_C15_CacheKeys() {
	u := zzNewC15()
	pe := NewPolicyEngine()
	u.apply(pe, 0)
	u.apply(pe, 3)
	u.apply(pe, 5)
	switch vf_Choose("base.np", 3) {
	case 1:
		u.apply(pe, 7)
	case 2:
		u.apply(pe, 8)
	}
	if vf_Choose("base.anps", 2) == 1 {
		u.apply(pe, 10)
		u.apply(pe, 12)
		u.apply(pe, 17)
	}
	qs := [][4]string{{"ns1/p2", "ns1/p1", "TCP", "80"}, {"ns1/p1", "ns1/p2", "TCP", "80"}, {"ns1/p2", "ns1/p1", "UDP", "80"},
		{"ns1/p2", "ns1/p1", "TCP", "81"}, {"ns1/p2", "ns1/p1", "tcp", "80"}, {"ns1/p2", "ns1/p1", "TCP", "8"}}
	a := vf_Choose("first", len(qs))
	_, _ = pe.CheckIfAllowed(qs[a][0], qs[a][1], qs[a][2], qs[a][3])
	b := vf_Choose("second", len(qs))
	got, err := pe.CheckIfAllowed(qs[b][0], qs[b][1], qs[b][2], qs[b][3])
	fresh, ferr := NewPolicyEngineWithObjects(u.objects())
	vf_Assert(ferr == nil, "fresh-engine-built")
	want, err2 := fresh.CheckIfAllowed(qs[b][0], qs[b][1], qs[b][2], qs[b][3])
	vf_Observe("queries", fmt.Sprintf("%d,%d", a, b))
	vf_Assert((err == nil) == (err2 == nil), "cachekeys-error")
	if err == nil && err2 == nil {
		vf_Assert(vf_Iff(got, want), "cachekeys-answer")
	}
}

// C15: updates that keep a pod's owner and labels (the cache key) but change what its verdicts depend on — the number
// behind a named container port — as a Pod replaced in place, as a Pod deleted and inserted again, and as a Deployment
// update; the policy (inserted before or after the pod, which resets the cache's owner bookkeeping) allows the named port only.
func ZZ_C15_PortUpdate() {
	c1, c2 := zzPortVar("c1"), zzPortVar("c2")
	ns := zzNsObj("ns1", map[string]string{"env": "prod"}).Namespace
	p2 := zzPodObj("ns1", "p2", map[string]string{"app": "b"}, nil, "ob").Pod
	np := zzNetpolObj("ns1", "np1", netv1.NetworkPolicySpec{
		PodSelector: metav1.LabelSelector{MatchLabels: map[string]string{"app": "a"}},
		Ingress: []netv1.NetworkPolicyIngressRule{{From: []netv1.NetworkPolicyPeer{{PodSelector: zzSel("app", "b")}},
			Ports: []netv1.NetworkPolicyPort{zzPortName(corev1.ProtocolTCP, "http")}}},
	}).NetworkPolicy
	mk := func(c int32) []corev1.ContainerPort {
		return []corev1.ContainerPort{{Name: "http", ContainerPort: c, Protocol: corev1.ProtocolTCP}}
	}
	pe := NewPolicyEngine()
	var cur []parser.K8sObject
	dst := "ns1/p1"
	mode := vf_Choose("mode", 3) // 0 pod replaced in place, 1 pod deleted and inserted again, 2 deployment updated
	policyFirst := vf_Choose("policy.first", 2) == 1
	ok := pe.InsertObject(ns) == nil && pe.InsertObject(p2) == nil
	if policyFirst {
		ok = ok && pe.InsertObject(np) == nil
	}
	if mode == 2 {
		d1, d2 := zzDeployObj("ns1", "p1", map[string]string{"app": "a"}, mk(c1)), zzDeployObj("ns1", "p1", map[string]string{"app": "a"}, mk(c2))
		ok = ok && pe.InsertObject(d1.Deployment) == nil
		for name := range pe.podsMap {
			if name != "ns1/p2" {
				dst = name // the pod generated for the deployment
			}
		}
		if !policyFirst {
			ok = ok && pe.InsertObject(np) == nil
		}
		_, _ = pe.CheckIfAllowed("ns1/p2", dst, "TCP", "80")
		ok = ok && pe.InsertObject(d2.Deployment) == nil
		cur = []parser.K8sObject{{Kind: parser.Namespace, Namespace: ns}, {Kind: parser.Pod, Pod: p2}, {Kind: parser.NetworkPolicy, NetworkPolicy: np}, d2}
	} else {
		a1, a2 := zzPodObj("ns1", "p1", map[string]string{"app": "a"}, mk(c1), "oa"), zzPodObj("ns1", "p1", map[string]string{"app": "a"}, mk(c2), "oa")
		ok = ok && pe.InsertObject(a1.Pod) == nil
		if !policyFirst {
			ok = ok && pe.InsertObject(np) == nil
		}
		_, _ = pe.CheckIfAllowed("ns1/p2", dst, "TCP", "80")
		if mode == 1 {
			ok = ok && pe.DeleteObject(a1.Pod) == nil
		}
		ok = ok && pe.InsertObject(a2.Pod) == nil
		cur = []parser.K8sObject{{Kind: parser.Namespace, Namespace: ns}, {Kind: parser.Pod, Pod: p2}, {Kind: parser.NetworkPolicy, NetworkPolicy: np}, a2}
	}
	vf_Assert(ok, "portupdate-inserts-succeed")
	got, err := pe.CheckIfAllowed("ns1/p2", dst, "TCP", "80")
	fresh, ferr := NewPolicyEngineWithObjects(cur)
	vf_Assert(ferr == nil, "fresh-engine-built")
	want, err2 := fresh.CheckIfAllowed("ns1/p2", dst, "TCP", "80")
	vf_Observe("dst", dst)
	vf_Assert(err == nil && err2 == nil, "portupdate-no-error")
	if err == nil && err2 == nil {
		vf_Assert(vf_Iff(got, want), "portupdate-history-independent-answer")
	}
}

// C15 (thorough tier): histories of THREE operations, the alphabet split in two halves so that the exploration completes:
// half 0 = namespace / pod / NetworkPolicy operations incl. pod updates, ClearResources and SetResources (from a base with
// or without a policy); half 1 = namespace and admin-policy operations (from the base holding the three ANPs).
func ZZ_C15_History3() {
	u := zzNewC15()
	pe := NewPolicyEngine()
	u.apply(pe, 0)
	u.apply(pe, 3)
	u.apply(pe, 5)
	var alphabet []int
	if vf_Choose("half", 2) == 0 {
		alphabet = []int{0, 1, 2, 3, 4, 5, 6, 7, 8, 9, 16, 19, 20, 21, 22}
		switch vf_Choose("base.np", 3) {
		case 1:
			u.apply(pe, 7)
		case 2:
			u.apply(pe, 8)
		}
	} else {
		alphabet = []int{1, 2, 0, 10, 11, 12, 13, 14, 15, 16, 17, 18}
		if vf_Choose("base.np", 2) == 1 {
			u.apply(pe, 8)
		}
		u.apply(pe, 10)
		u.apply(pe, 12)
		u.apply(pe, 17)
	}
	u.apply(pe, 16) // one query already cached
	var trace string
	for i := 0; i < 3; i++ {
		k := alphabet[vf_Choose(fmt.Sprintf("op%d", i), len(alphabet))]
		trace += fmt.Sprintf("%d,", k)
		u.apply(pe, k)
	}
	got, err := pe.CheckIfAllowed("ns1/p2", "ns1/p1", "TCP", "80")
	if u.curNs == nil {
		return // as in ZZ_C15_History
	}
	fresh, ferr := NewPolicyEngineWithObjects(u.objects())
	vf_Assert(ferr == nil, "fresh-engine-built")
	want, err2 := fresh.CheckIfAllowed("ns1/p2", "ns1/p1", "TCP", "80")
	vf_Observe("trace", trace)
	vf_Assert((err == nil) == (err2 == nil), "history3-independent-error")
	if err == nil && err2 == nil {
		vf_Assert(vf_Iff(got, want), "history3-independent-answer")
	}
}
