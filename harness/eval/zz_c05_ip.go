package eval

import (
	"fmt"

	netv1 "k8s.io/api/networking/v1"
	metav1 "k8s.io/apimachinery/pkg/apis/meta/v1"

	"github.com/np-guard/models/pkg/interval"
	"github.com/np-guard/models/pkg/netset"

	"github.com/np-guard/netpol-analyzer/pkg/manifests/parser"
	"github.com/np-guard/netpol-analyzer/pkg/netpol/eval/internal/k8s"
)

// zzIPPeerRange returns the intervals of an IP peer
func zzIPPeerIntervals(p Peer) []interval.Interval {
	ipb := p.(*k8s.IPBlockPeer).IPBlock
	cs := vf_GetField(ipb, "ipRange").(*interval.CanonicalSet)
	return cs.Intervals()
}

// zzGenIPBlocks: nb ipBlock peers with symbolic CIDRs; the first exBlocks of them with <= maxEx excepts inside
func zzGenIPBlocks(book *zzCidrBook, prefix string, maxBlocks, exBlocks, maxEx int) []netv1.NetworkPolicyPeer {
	nb := vf_Choose(prefix+".nb", maxBlocks+1)
	var peers []netv1.NetworkPolicyPeer
	for i := 0; i < nb; i++ {
		name := fmt.Sprintf("%s.blk%d", prefix, i)
		blk := &netv1.IPBlock{CIDR: book.New(name)}
		c := book.last()
		ne := 0
		if i < exBlocks {
			ne = vf_Choose(name+".nex", maxEx+1)
		}
		for j := 0; j < ne; j++ {
			ex := book.New(fmt.Sprintf("%s.ex%d", name, j))
			// Kubernetes validation: an except must lie strictly inside the block's CIDR
			vf_Assume(zzCidrInside(book.last(), c))
			blk.Except = append(blk.Except, ex)
		}
		peers = append(peers, netv1.NetworkPolicyPeer{IPBlock: blk})
	}
	return peers
}

// C05(a): the IP peers are single ranges, pairwise disjoint, covering the whole IPv4 space, and refine
// every rule block (two addresses of one peer are never separated by a rule's cidr-minus-excepts).
func ZZ_C05_IPPartition() {
	book := &zzCidrBook{}
	maxB, exB, maxE := 2, 1, 1
	if vf_Tier() > 0 {
		maxB, exB, maxE = 2, 2, 1
	}
	blocks := zzGenIPBlocks(book, "in", maxB, exB, maxE)
	objs := []parser.K8sObject{
		zzDeployObj("default", "a", map[string]string{"app": "a"}, nil),
		zzNetpolObj("default", "np1", netv1.NetworkPolicySpec{
			PodSelector: metav1.LabelSelector{},
			Ingress:     []netv1.NetworkPolicyIngressRule{{From: blocks}},
		}),
	}
	pe, err := NewPolicyEngineWithObjects(objs)
	vf_Assert(err == nil, "engine-built")
	peers, err := pe.GetPeersList()
	vf_Assert(err == nil, "peers-listed")
	a, b := vf_Uint32("a"), vf_Uint32("b")
	cnt := 0
	nip := 0
	for _, p := range peers {
		if !p.IsPeerIPType() {
			continue
		}
		nip++
		ivs := zzIPPeerIntervals(p)
		vf_Assert(len(ivs) == 1, "ip-peer-single-range")
		lo, hi := ivs[0].Start(), ivs[0].End()
		vf_Assert(vf_And(lo >= 0, hi <= 0xffffffff, lo <= hi), "ip-peer-range-valid")
		inA := vf_And(lo <= int64(a), int64(a) <= hi)
		inB := vf_And(lo <= int64(b), int64(b) <= hi)
		cnt = cnt + vf_IteInt(inA, 1, 0)
		for i := range blocks {
			ra, rb := book.inBlock(a, blocks[i].IPBlock), book.inBlock(b, blocks[i].IPBlock)
			vf_Assert(vf_Implies(vf_And(inA, inB), vf_Iff(ra, rb)), "ip-peer-refines-rule-blocks")
		}
	}
	vf_Assert(cnt == 1, "ip-peers-partition-the-space")
	vf_Observe("nip", nip)
}

var _ = netset.CidrAll
