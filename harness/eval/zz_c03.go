package eval

import (
	"fmt"
)

var zzSpellings = [][]string{{"TCP", "tcp"}, {"UDP", "Udp"}, {"SCTP", "sctp"}}

// zzPeerQueryName: the name by which CheckIfAllowed addresses a peer: a pod of the workload, or an address
func zzPeerQueryName(p Peer, e zzEnd) string {
	if p.IsPeerIPType() {
		return vf_IPStr(e.Addr)
	}
	return p.Namespace() + "/" + p.Name() + "-1"
}

// zzCheckEvalOnePair: for one chosen ordered pair and protocol, eval == list == semantics for a symbolic port
func zzCheckEvalOnePair(g *zzGen, pe *PolicyEngine) {
	peers, err := pe.GetPeersList()
	vf_Assert(err == nil, "peers-listed")
	peers = zzStablePeers(peers)
	n := len(peers)
	i := vf_Choose("src", n)
	j := vf_Choose("dst", n)
	s, d := peers[i], peers[j]
	if s.IsPeerIPType() && d.IsPeerIPType() {
		vf_Assume(false)
	}
	if i == j && s.IsPeerIPType() {
		vf_Assume(false)
	}
	x := zzProbeX()
	se, de := zzEndOf(g, s, i), zzEndOf(g, d, j)
	sn, dn := zzPeerQueryName(s, se), zzPeerQueryName(d, de)
	if i == j {
		got, err := pe.CheckIfAllowed(sn, dn, "TCP", vf_DecStr(x))
		vf_Assert(err == nil && got, "eval-pod-to-itself-allowed")
		return
	}
	conns, lerr := pe.AllAllowedConnectionsBetweenWorkloadPeers(s, d)
	if lerr != nil {
		// list cannot analyse this pair (documented named-port-on-IP deviation): eval may fail too
		return
	}
	sp := (i + j) % 2
	for q := range zzProtos3 {
		got, err := pe.CheckIfAllowed(sn, dn, zzSpellings[q][(sp+q)%2], vf_DecStr(x))
		vf_Assert(err == nil, "eval-answers-where-list-does")
		if err != nil {
			return
		}
		vf_Assert(vf_Iff(got, zzDenCS(conns, zzProtos3[q], x)), "eval-equals-list")
		vf_Assert(vf_Iff(got, g.W.zzAllowed(se, de, zzProtos3[q], x, g.Book)), "eval-matches-semantics")
	}
	vf_Observe("pair", fmt.Sprintf("%d->%d", i, j))
}

// C03 on NetworkPolicy worlds
func ZZ_C03_EvalVsList_NP() {
	withC := vf_Tier() > 0
	nsObjs := true
	if vf_Tier() > 0 {
		nsObjs = vf_Choose("nsObjs", 2) == 1
	}
	g := zzBaseWorld(withC, nsObjs)
	g.addNP(g.zzGenNPx("np1", "ns1", vf_Tier() > 0, vf_Tier() == 0))
	pe, err := NewPolicyEngineWithObjects(g.Objs)
	vf_Assert(err == nil, "engine-built")
	zzCheckEvalOnePair(g, pe)
}

// C03: eval agrees with list (and the oracle) on admin rules with a port name, for every ordered pair
func ZZ_C03_EvalVsList_AdmNamedPort() {
	g := zzAdmNamedPortWorld()
	pe, err := NewPolicyEngineWithObjects(g.Objs)
	vf_Assert(err == nil, "engine-built")
	zzCheckEvalOnePair(g, pe)
}
