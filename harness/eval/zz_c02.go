package eval

import (
	"fmt"

	corev1 "k8s.io/api/core/v1"
	netv1 "k8s.io/api/networking/v1"
	metav1 "k8s.io/apimachinery/pkg/apis/meta/v1"
	apisv1a "sigs.k8s.io/network-policy-api/apis/v1alpha1"
)

// zzPrio: a symbolic priority in 0..1000
func zzPrio(name string) int32 {
	p := vf_Int32N(name, 10)
	vf_Assume(p <= 1000)
	return p
}

// zzAdmWorld: base world + nANP admin policies with symbolic pairwise-distinct priorities (inserted in
// index order, so every relative order of input position and priority is covered), optional BANP and
// optional NetworkPolicy.
func zzAdmWorld(nANP int, rich bool) *zzGen { return zzAdmWorldX(nANP, rich, true, true) }

// zzAdmWorldX: optBANP / optNP open the optional BANP / NetworkPolicy choices
func zzAdmWorldX(nANP int, rich, optBANP, optNP bool) *zzGen {
	g := zzBaseWorld(true, true)
	ing := vf_Choose("dir", 2) == 0
	var prios []int32
	for k := 0; k < nANP; k++ {
		name := fmt.Sprintf("anp%d", k)
		pr := zzPrio(name + ".prio")
		for _, o := range prios {
			vf_Assume(pr != o)
		}
		prios = append(prios, pr)
		switch {
		case rich && k == 0:
			g.addANP(g.zzGenANPx(name, pr, ing, 1+vf_Choose(name+".nrules", 2), 3, 3, 5))
		case rich:
			g.addANP(g.zzGenANPx(name, pr, ing, 1, 2, 2, 2))
		case k == 0: // quick: the first ANP from a menu of 36 shapes (ports: all / two entries UDP+default / a symbolic TCP range)
			g.addANP(g.zzGenANPx(name, pr, ing, 1, 2, 2, 3))
		default: // quick: further ANPs select everything, any action, all ports
			g.addANP(g.zzGenANPx(name, pr, ing, 1, 1, 1, 1))
		}
	}
	if optBANP && vf_Choose("banp", 2) == 1 {
		if rich {
			g.addBANP(g.zzGenBANPx(ing, 1, 2, 2, 2))
		} else {
			g.addBANP(g.zzGenBANPx(ing, 1, 1, 1, 1))
		}
	}
	if optNP && vf_Choose("np", 2) == 1 {
		// a NetworkPolicy governing pod a in both directions: from/to app=b on a TCP range
		p, e := zzPortVar("np.p"), zzPortVar("np.e")
		vf_Assume(p <= e)
		ports := []netv1.NetworkPolicyPort{zzPortRange(corev1.ProtocolTCP, p, e)}
		g.addNP(zzNetpolObj("ns1", "np1", netv1.NetworkPolicySpec{
			PodSelector: metav1.LabelSelector{MatchLabels: map[string]string{"app": "a"}},
			PolicyTypes: []netv1.PolicyType{netv1.PolicyTypeIngress, netv1.PolicyTypeEgress},
			Ingress:     []netv1.NetworkPolicyIngressRule{{From: []netv1.NetworkPolicyPeer{{PodSelector: zzSel("app", "b")}}, Ports: ports}},
			Egress:      []netv1.NetworkPolicyEgressRule{{To: []netv1.NetworkPolicyPeer{{PodSelector: zzSel("app", "b")}}, Ports: ports}},
		}).NetworkPolicy)
	}
	return g
}

// C02: ANP > NP > BANP, first matching rule, priority not input order
func ZZ_C02_Layering() {
	n := 2
	if vf_Tier() > 0 {
		n = 2 + vf_Choose("nanp", 2)
	}
	g := zzAdmWorld(n, vf_Tier() > 0)
	pe, err := NewPolicyEngineWithObjects(g.Objs)
	vf_Assert(err == nil, "engine-built")
	zzCheckAllPairs(g, pe, "list-matches-admin-layering")
}

// C03 on admin-policy worlds: eval == list == semantics
func ZZ_C03_EvalVsList_ANP() {
	// quick: two ANPs and the optional BANP (the NetworkPolicy layer under admin policies is in the thorough tier and in C02)
	g := zzAdmWorldX(2, vf_Tier() > 0, true, vf_Tier() > 0)
	pe, err := NewPolicyEngineWithObjects(g.Objs)
	vf_Assert(err == nil, "engine-built")
	zzCheckEvalOnePair(g, pe)
}

// C02: rule order inside one policy — the first matching rule of an ANP / of the BANP decides. One admin policy
// with two rules in one direction (every pair of actions, peers from the menu, ports: all / a symbolic range),
// nothing else in the world.
func ZZ_C02_RuleOrder() {
	g := zzBaseWorld(true, true)
	ing := vf_Choose("dir", 2) == 0
	if vf_Choose("kind", 2) == 0 {
		g.addANP(g.zzGenANPx("anp0", 7, ing, 2, 1, 2, 2))
	} else {
		g.addBANP(g.zzGenBANPx(ing, 2, 1, 2, 2))
	}
	pe, err := NewPolicyEngineWithObjects(g.Objs)
	vf_Assert(err == nil, "engine-built")
	zzCheckAllPairs(g, pe, "list-matches-admin-rule-order")
}

// zzAdmNamedPortWorld: one ANP (any action) or the BANP with one rule on the port name http, in either direction, over a
// world where two pods declare that name with different (symbolic) numbers and two pods do not declare it: the name is
// resolved on the destination of the connection, whatever the direction of the rule.
func zzAdmNamedPortWorld() *zzGen {
	g := zzBaseWorld(true, true)
	g.addPod("ns1", "d", map[string]string{"app": "d"}, []corev1.ContainerPort{{Name: "http", ContainerPort: zzPortVar("d.http"), Protocol: corev1.ProtocolTCP}})
	ing := vf_Choose("dir", 2) == 0
	h := "http"
	ports := &[]apisv1a.AdminNetworkPolicyPort{{NamedPort: &h}}
	all := &metav1.LabelSelector{}
	if vf_Choose("kind", 2) == 0 {
		anp := zzSimpleANP("anp0", 7).AdminNetworkPolicy
		act := zzActions[vf_Choose("act", 3)]
		anp.Spec.Ingress = nil
		if ing {
			anp.Spec.Ingress = []apisv1a.AdminNetworkPolicyIngressRule{{Action: act, From: []apisv1a.AdminNetworkPolicyIngressPeer{{Namespaces: all}}, Ports: ports}}
		} else {
			anp.Spec.Egress = []apisv1a.AdminNetworkPolicyEgressRule{{Action: act, To: []apisv1a.AdminNetworkPolicyEgressPeer{{Namespaces: all}}, Ports: ports}}
		}
		g.addANP(anp)
	} else {
		b := &apisv1a.BaselineAdminNetworkPolicy{
			TypeMeta:   metav1.TypeMeta{Kind: "BaselineAdminNetworkPolicy", APIVersion: "policy.networking.k8s.io/v1alpha1"},
			ObjectMeta: metav1.ObjectMeta{Name: "default"},
		}
		b.Spec.Subject = apisv1a.AdminNetworkPolicySubject{Namespaces: all}
		act := []apisv1a.BaselineAdminNetworkPolicyRuleAction{apisv1a.BaselineAdminNetworkPolicyRuleActionAllow, apisv1a.BaselineAdminNetworkPolicyRuleActionDeny}[vf_Choose("act", 2)]
		if ing {
			b.Spec.Ingress = []apisv1a.BaselineAdminNetworkPolicyIngressRule{{Action: act, From: []apisv1a.AdminNetworkPolicyIngressPeer{{Namespaces: all}}, Ports: ports}}
		} else {
			b.Spec.Egress = []apisv1a.BaselineAdminNetworkPolicyEgressRule{{Action: act, To: []apisv1a.AdminNetworkPolicyEgressPeer{{Namespaces: all}}, Ports: ports}}
		}
		g.addBANP(b)
	}
	return g
}

// C02: a named port of an admin rule is the destination's port of that name (list side, all ordered pairs)
func ZZ_C02_NamedPortDirection() {
	g := zzAdmNamedPortWorld()
	pe, err := NewPolicyEngineWithObjects(g.Objs)
	vf_Assert(err == nil, "engine-built")
	zzCheckAllPairs(g, pe, "list-matches-admin-named-port")
}
