package eval

import (
	"fmt"

	corev1 "k8s.io/api/core/v1"
	netv1 "k8s.io/api/networking/v1"
	metav1 "k8s.io/apimachinery/pkg/apis/meta/v1"

	"github.com/np-guard/netpol-analyzer/pkg/netpol/internal/common"
)

var zzProtos3 = []corev1.Protocol{corev1.ProtocolTCP, corev1.ProtocolUDP, corev1.ProtocolSCTP}

func zzProbeX() int64 {
	x := vf_Int64N("x", 17)
	vf_Assume(vf_And(x >= 1, x <= 65535))
	return x
}

// zzStablePeers orders the peers independently of Go map iteration order (so that a model of the
// symbolic run denotes the same peers in the native replay): workloads by name, then IP peers by
// their start address.
func zzStablePeers(peers []Peer) []Peer {
	var ws, ips []Peer
	for _, p := range peers {
		if p.IsPeerIPType() {
			ips = append(ips, p)
		} else {
			ws = append(ws, p)
		}
	}
	for i := 1; i < len(ws); i++ {
		for j := i; j > 0 && ws[j].String() < ws[j-1].String(); j-- {
			ws[j], ws[j-1] = ws[j-1], ws[j]
		}
	}
	for i := 1; i < len(ips); i++ {
		for j := i; j > 0; j-- {
			if zzIPPeerIntervals(ips[j])[0].Start() < zzIPPeerIntervals(ips[j-1])[0].Start() {
				ips[j], ips[j-1] = ips[j-1], ips[j]
			} else {
				break
			}
		}
	}
	return append(ws, ips...)
}

// zzEndOf maps a peer of the engine to an end of the oracle's world. For an IP peer a fresh symbolic
// address inside the peer's range stands for every address of the range.
func zzEndOf(g *zzGen, p Peer, idx int) zzEnd {
	if p.IsPeerIPType() {
		ivs := zzIPPeerIntervals(p)
		a := vf_Uint32(fmt.Sprintf("addr%d", idx))
		vf_Assume(vf_And(ivs[0].Start() <= int64(a), int64(a) <= ivs[0].End()))
		return zzEnd{IsIP: true, Addr: a}
	}
	wp := g.pod(p.Namespace(), p.Name())
	if wp == nil {
		panic("zzEndOf: unknown workload " + p.String())
	}
	return zzEnd{Pod: wp}
}

// zzCheckOnePair: for one chosen ordered pair of peers (the choice is explored exhaustively) the
// engine's connection set denotes exactly what the oracle semantics allow (all three protocols,
// symbolic port, symbolic address inside an IP peer). One pair per path keeps the forks of
// independent pairs from multiplying.
func zzCheckOnePair(g *zzGen, pe *PolicyEngine, label string) {
	peers, err := pe.GetPeersList()
	vf_Assert(err == nil, "peers-listed")
	peers = zzStablePeers(peers)
	x := zzProbeX()
	n := len(peers)
	i := vf_Choose("src", n)
	j := vf_Choose("dst", n)
	s, d := peers[i], peers[j]
	if i == j || (s.IsPeerIPType() && d.IsPeerIPType()) {
		vf_Assume(false)
	}
	se, de := zzEndOf(g, s, i), zzEndOf(g, d, j)
	conns, err := pe.AllAllowedConnectionsBetweenWorkloadPeers(s, d)
	if err != nil {
		// documented deviation: a named port would have to be resolved on an IP destination
		ok := d.IsPeerIPType() && !s.IsPeerIPType() && g.W.zzEgressNamedPort(se.Pod)
		vf_Assert(ok, label+"-unexpected-error")
		return
	}
	for _, proto := range zzProtos3 {
		vf_Assert(vf_Iff(zzDenCS(conns, proto, x), g.W.zzAllowed(se, de, proto, x, g.Book)), label)
	}
	vf_Observe("pair", fmt.Sprintf("%s->%s", s.String(), d.String()))
	vf_Observe("conns", conns.String())
}

// zzCheckAllPairs: every ordered pair on the same path (branch conditions shared between pairs are
// decided once); used where the per-pair computations fork little.
func zzCheckAllPairs(g *zzGen, pe *PolicyEngine, label string) {
	peers, err := pe.GetPeersList()
	vf_Assert(err == nil, "peers-listed")
	peers = zzStablePeers(peers)
	x := zzProbeX()
	ends := make([]zzEnd, len(peers))
	for i, p := range peers {
		ends[i] = zzEndOf(g, p, i)
	}
	for i, s := range peers {
		for j, d := range peers {
			if i == j || (s.IsPeerIPType() && d.IsPeerIPType()) {
				continue
			}
			conns, err := pe.AllAllowedConnectionsBetweenWorkloadPeers(s, d)
			if err != nil {
				// documented deviation: a named port would have to be resolved on an IP destination
				ok := d.IsPeerIPType() && !s.IsPeerIPType() && g.W.zzEgressNamedPort(ends[i].Pod)
				vf_Assert(ok, label+"-unexpected-error")
				continue
			}
			for _, proto := range zzProtos3 {
				vf_Assert(vf_Iff(zzDenCS(conns, proto, x), g.W.zzAllowed(ends[i], ends[j], proto, x, g.Book)), label)
			}
		}
	}
	vf_Observe("npeers", len(peers))
}

// C01 compose: one NetworkPolicy from the menus (thorough: rules in both directions, and a second policy)
func ZZ_C01_OnePolicy() {
	withC := true
	if vf_Tier() > 0 {
		withC = vf_Choose("withC", 2) == 1
	}
	g := zzBaseWorld(withC, vf_Choose("nsObjs", 2) == 1)
	g.addNP(g.zzGenNP("np1", "ns1", vf_Tier() > 0))
	pe, err := NewPolicyEngineWithObjects(g.Objs)
	vf_Assert(err == nil, "engine-built")
	zzCheckAllPairs(g, pe, "list-matches-np-semantics")
}

// two policies in the same namespace selecting overlapping pods: union of rules; the second from a reduced menu
func ZZ_C01_TwoPolicies() {
	g := zzBaseWorld(true, vf_Choose("nsObjs", 2) == 1)
	g.addNP(g.zzGenNP("np1", "ns1", false))
	np2 := g.zzGenNP("np2", []string{"ns1", "ns2"}[vf_Choose("np2.ns", 2)], false)
	g.addNP(np2)
	pe, err := NewPolicyEngineWithObjects(g.Objs)
	vf_Assert(err == nil, "engine-built")
	zzCheckAllPairs(g, pe, "list-matches-np-semantics")
}

var _ = common.NoPort

// Two ipBlock peers of one policy sharing the same CIDR text with different excepts (two rules with
// different ports): each rule applies its own excepts.
func ZZ_C01_SharedCidrBlocks() {
	g := zzBaseWorld(false, true)
	cidr := g.Book.New("c")
	c := g.Book.last()
	mkBlock := func(name string) *netv1.IPBlock {
		blk := &netv1.IPBlock{CIDR: cidr}
		if vf_Choose(name+".nex", 2) == 1 {
			ex := g.Book.New(name + ".ex")
			vf_Assume(zzCidrInside(g.Book.last(), c))
			blk.Except = []string{ex}
		}
		return blk
	}
	b1, b2 := mkBlock("b1"), mkBlock("b2")
	p1, p2 := zzPortVar("p1"), zzPortVar("p2")
	np := zzNetpolObj("ns1", "np1", netv1.NetworkPolicySpec{
		PodSelector: metav1.LabelSelector{MatchLabels: map[string]string{"app": "a"}},
	}).NetworkPolicy
	r1 := netv1.NetworkPolicyIngressRule{From: []netv1.NetworkPolicyPeer{{IPBlock: b1}}, Ports: []netv1.NetworkPolicyPort{zzPortNum(corev1.ProtocolTCP, p1)}}
	if vf_Choose("where", 2) == 0 {
		r2 := netv1.NetworkPolicyIngressRule{From: []netv1.NetworkPolicyPeer{{IPBlock: b2}}, Ports: []netv1.NetworkPolicyPort{zzPortNum(corev1.ProtocolUDP, p2)}}
		np.Spec.Ingress = []netv1.NetworkPolicyIngressRule{r1, r2}
	} else {
		np.Spec.Ingress = []netv1.NetworkPolicyIngressRule{r1}
		np.Spec.Egress = []netv1.NetworkPolicyEgressRule{{To: []netv1.NetworkPolicyPeer{{IPBlock: b2}}, Ports: []netv1.NetworkPolicyPort{zzPortNum(corev1.ProtocolUDP, p2)}}}
	}
	g.addNP(np)
	pe, err := NewPolicyEngineWithObjects(g.Objs)
	vf_Assert(err == nil, "engine-built")
	zzCheckAllPairs(g, pe, "list-matches-np-semantics")
}
