package eval

import (
	"fmt"
	"strings"

	netv1 "k8s.io/api/networking/v1"
	metav1 "k8s.io/apimachinery/pkg/apis/meta/v1"
	apisv1a "sigs.k8s.io/network-policy-api/apis/v1alpha1"

	"github.com/np-guard/netpol-analyzer/pkg/manifests/parser"
)

func zzSimpleANP(name string, prio int32) parser.K8sObject {
	anp := &apisv1a.AdminNetworkPolicy{
		TypeMeta:   metav1.TypeMeta{Kind: "AdminNetworkPolicy", APIVersion: "policy.networking.k8s.io/v1alpha1"},
		ObjectMeta: metav1.ObjectMeta{Name: name},
	}
	anp.Spec.Priority = prio
	anp.Spec.Subject = apisv1a.AdminNetworkPolicySubject{Namespaces: &metav1.LabelSelector{}}
	anp.Spec.Ingress = []apisv1a.AdminNetworkPolicyIngressRule{{Action: apisv1a.AdminNetworkPolicyRuleActionAllow,
		From: []apisv1a.AdminNetworkPolicyIngressPeer{{Namespaces: &metav1.LabelSelector{}}}}}
	return parser.K8sObject{Kind: parser.AdminNetworkPolicy, AdminNetworkPolicy: anp}
}

// zzListResult: what `list` does with the objects: build the engine and list the peers
func zzListResult(objs []parser.K8sObject) error {
	pe, err := NewPolicyEngineWithObjects(objs)
	if err != nil {
		return err
	}
	_, err = pe.GetPeersList()
	return err
}

// C19: n ANPs with priorities over all of int32: an error iff two are equal or one is outside 0..1000.
// The real sort.Slice / pdqsort code runs, so "is this pair ever compared" is decided by execution for
// every order of the values.
func ZZ_C19_Priorities() {
	maxN := 5
	if vf_Tier() > 0 {
		maxN = 6
	}
	n := 1 + vf_Choose("n", maxN)
	objs := []parser.K8sObject{zzDeployObj("ns1", "a", map[string]string{"app": "a"}, nil)}
	prios := make([]int32, n)
	conflict := false
	for i := 0; i < n; i++ {
		prios[i] = vf_Int32(fmt.Sprintf("prio%d", i))
		conflict = vf_Or(conflict, prios[i] < 0, prios[i] > 1000)
		for j := 0; j < i; j++ {
			conflict = vf_Or(conflict, prios[i] == prios[j])
		}
		objs = append(objs, zzSimpleANP(fmt.Sprintf("anp%c", rune(0x61+i)), prios[i]))
	}
	err := zzListResult(objs)
	if err != nil {
		vf_Assert(conflict, "error-only-on-conflict")
		msg := err.Error()
		named := false
		for i := 0; i < n; i++ {
			if strings.Contains(msg, fmt.Sprintf("anp%c", rune(0x61+i))) {
				named = true
			}
		}
		vf_Assert(named, "error-names-a-policy")
	} else {
		vf_Assert(vf_Not(conflict), "conflicting-priorities-rejected")
	}
	vf_Observe("err", err != nil)
}

// zzInsertAt inserts o at position pos of objs
func zzInsertAt(objs []parser.K8sObject, pos int, o parser.K8sObject) []parser.K8sObject {
	res := make([]parser.K8sObject, 0, len(objs)+1)
	res = append(res, objs[:pos]...)
	res = append(res, o)
	res = append(res, objs[pos:]...)
	return res
}

// C19: name / singleton conflicts wherever the conflicting resources sit in the input
func ZZ_C19_NamesAndSingletons() {
	base := []parser.K8sObject{
		zzNsObj("ns1", nil),
		zzDeployObj("ns1", "a", map[string]string{"app": "a"}, nil),
		zzSimpleANP("x", zzPrio("px")),
		zzNetpolObj("ns1", "np", netv1.NetworkPolicySpec{}),
		zzPodObj("ns1", "p1", map[string]string{"app": "p"}, nil, "own"),
	}
	kind := vf_Choose("kind", 9)
	var first, second parser.K8sObject
	hasSecond := true
	expectErr := true
	needle := ""
	switch kind {
	case 0: // two ANPs with the same name (different priorities)
		p1, p2 := zzPrio("p1"), zzPrio("p2")
		vf_Assume(vf_And(p1 != p2))
		first, second = zzSimpleANP("dup", p1), zzSimpleANP("dup", p2)
		needle = "dup"
	case 1: // two NetworkPolicies with the same name in one namespace
		first, second = zzNetpolObj("ns1", "same", netv1.NetworkPolicySpec{}), zzNetpolObj("ns1", "same", netv1.NetworkPolicySpec{})
		needle = "same"
	case 2: // same name in different namespaces is fine
		first, second = zzNetpolObj("ns1", "same", netv1.NetworkPolicySpec{}), zzNetpolObj("ns2", "same", netv1.NetworkPolicySpec{})
		expectErr = false
	case 3: // two BANPs
		g := &zzGen{W: &zzWorld{}, Book: &zzCidrBook{}}
		first = parser.K8sObject{Kind: parser.BaselineAdminNetworkPolicy, BaselineAdminNetworkPolicy: g.zzGenBANPx(true, 1, 1, 1, 1)}
		second = parser.K8sObject{Kind: parser.BaselineAdminNetworkPolicy, BaselineAdminNetworkPolicy: g.zzGenBANPx(false, 1, 1, 1, 1)}
	case 4: // a BANP not named default
		g := &zzGen{W: &zzWorld{}, Book: &zzCidrBook{}}
		b := g.zzGenBANPx(true, 1, 1, 1, 1)
		b.Name = "baseline"
		first = parser.K8sObject{Kind: parser.BaselineAdminNetworkPolicy, BaselineAdminNetworkPolicy: b}
		hasSecond = false
	case 5: // pods of one owner with different labels
		first, second = zzPodObj("ns1", "q1", map[string]string{"app": "q"}, nil, "own2"), zzPodObj("ns1", "q2", map[string]string{"app": "r"}, nil, "own2")
		needle = "own2"
	case 7: // pods of one owner whose labels differ only by a key with an empty value (legal in Kubernetes)
		first, second = zzPodObj("ns1", "q1", map[string]string{"app": "q"}, nil, "own2"), zzPodObj("ns1", "q2", map[string]string{"app": "q", "canary": ""}, nil, "own2")
		needle = "own2"
	case 8: // same, the pod with the extra label first
		first, second = zzPodObj("ns1", "q1", map[string]string{"app": "q", "canary": ""}, nil, "own2"), zzPodObj("ns1", "q2", map[string]string{"app": "q"}, nil, "own2")
		needle = "own2"
	case 6: // pods of one owner with the same labels are fine
		first, second = zzPodObj("ns1", "q1", map[string]string{"app": "q"}, nil, "own2"), zzPodObj("ns1", "q2", map[string]string{"app": "q"}, nil, "own2")
		expectErr = false
	}
	objs := zzInsertAt(base, vf_Choose("pos1", len(base)+1), first)
	if hasSecond {
		objs = zzInsertAt(objs, vf_Choose("pos2", len(objs)+1), second)
	}
	err := zzListResult(objs)
	if expectErr {
		vf_Assert(err != nil, "conflict-rejected")
		if err != nil && needle != "" {
			vf_Assert(strings.Contains(err.Error(), needle), "error-names-the-conflict")
		}
	} else {
		vf_Assert(err == nil, "no-false-conflict")
	}
	vf_Observe("err", err != nil)
}
