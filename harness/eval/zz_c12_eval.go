package eval

import (
	corev1 "k8s.io/api/core/v1"
	netv1 "k8s.io/api/networking/v1"
	metav1 "k8s.io/apimachinery/pkg/apis/meta/v1"
	apisv1a "sigs.k8s.io/network-policy-api/apis/v1alpha1"

	"github.com/np-guard/netpol-analyzer/pkg/manifests/parser"
)

func zzC12EvalContext() []parser.K8sObject {
	return []parser.K8sObject{
		zzNsObj("ns1", map[string]string{"env": "prod"}),
		zzPodObj("ns1", "p1", map[string]string{"app": "a"}, []corev1.ContainerPort{{Name: "http", ContainerPort: 8080}}, "oa"),
		zzPodObj("ns1", "p2", map[string]string{"app": "b"}, nil, "ob"),
		zzNetpolObj("ns1", "np", netv1.NetworkPolicySpec{
			PodSelector: metav1.LabelSelector{MatchLabels: map[string]string{"app": "a"}},
			Ingress:     []netv1.NetworkPolicyIngressRule{{From: []netv1.NetworkPolicyPeer{{PodSelector: &metav1.LabelSelector{}}}}},
		}),
	}
}

// eval (CheckIfAllowed, the rule-walking implementation) on unconstrained objects: an answer or an
// error, never a panic. Objects are inserted one by one as the CLI eval command does.
func zzC12Eval(objs []parser.K8sObject, extraSrc string) {
	pe := NewPolicyEngine()
	for i := range objs {
		var err error
		switch objs[i].Kind {
		case parser.Namespace:
			err = pe.InsertObject(objs[i].Namespace)
		case parser.Pod:
			err = pe.InsertObject(objs[i].Pod)
		case parser.NetworkPolicy:
			err = pe.InsertObject(objs[i].NetworkPolicy)
		case parser.AdminNetworkPolicy:
			err = pe.InsertObject(objs[i].AdminNetworkPolicy)
		case parser.BaselineAdminNetworkPolicy:
			err = pe.InsertObject(objs[i].BaselineAdminNetworkPolicy)
		}
		if err != nil {
			vf_Observe("insert-err", true)
			vf_Assert(true, "completed-without-panic")
			return
		}
	}
	q := vf_Choose("query", 4)
	var err error
	switch q {
	case 0:
		_, err = pe.CheckIfAllowed("ns1/p2", "ns1/p1", "TCP", "8080")
	case 1:
		_, err = pe.CheckIfAllowed("ns1/p1", "ns1/p2", "udp", "53")
	case 2:
		_, err = pe.CheckIfAllowed("ns1/p1", "10.0.0.7", "TCP", "80")
	default:
		_, err = pe.CheckIfAllowed(extraSrc, "ns1/p1", "SCTP", "9")
	}
	vf_Observe("err", err != nil)
	vf_Assert(true, "completed-without-panic")
}

func ZZ_C12_Eval_NetworkPolicy() {
	o := &netv1.NetworkPolicy{}
	vf_Any("np", o, zzPools())
	zzC12Eval(append(zzC12EvalContext(), parser.K8sObject{Kind: parser.NetworkPolicy, NetworkPolicy: o}), "1.2.3.4")
}

func ZZ_C12_Eval_AdminNetworkPolicy() {
	o := &apisv1a.AdminNetworkPolicy{}
	vf_Any("anp", o, zzPools())
	zzC12Eval(append(zzC12EvalContext(), parser.K8sObject{Kind: parser.AdminNetworkPolicy, AdminNetworkPolicy: o}), "1.2.3.4")
}

func ZZ_C12_Eval_BaselineAdminNetworkPolicy() {
	o := &apisv1a.BaselineAdminNetworkPolicy{}
	pools := zzPools()
	pools["Name"] = []string{"default", "", "other"}
	vf_Any("banp", o, pools)
	zzC12Eval(append(zzC12EvalContext(), parser.K8sObject{Kind: parser.BaselineAdminNetworkPolicy, BaselineAdminNetworkPolicy: o}), "1.2.3.4")
}

func ZZ_C12_Eval_Pod() {
	o := &corev1.Pod{}
	pools := zzPools()
	pools["Name"] = []string{"px", ""}
	vf_Any("pod", o, pools)
	zzC12Eval(append(zzC12EvalContext(), parser.K8sObject{Kind: parser.Pod, Pod: o}), "ns1/px")
}

func ZZ_C12_Eval_Namespace() {
	o := &corev1.Namespace{}
	pools := zzPools()
	pools["Name"] = []string{"ns1", "", "other"}
	vf_Any("ns", o, pools)
	zzC12Eval(append(zzC12EvalContext(), parser.K8sObject{Kind: parser.Namespace, Namespace: o}), "1.2.3.4")
}
