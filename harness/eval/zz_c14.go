package eval

import (
	corev1 "k8s.io/api/core/v1"
	netv1 "k8s.io/api/networking/v1"
	metav1 "k8s.io/apimachinery/pkg/apis/meta/v1"

	"github.com/np-guard/netpol-analyzer/pkg/manifests/parser"
)

// zzView: a report as a pointwise function, independent of the IP partition: workload pairs, and
// workload <-> one symbolic address
type zzView struct {
	pe    *PolicyEngine
	peers []Peer
}

func zzViewOf(objs []parser.K8sObject) (*zzView, error) {
	pe, err := NewPolicyEngineWithObjects(objs)
	if err != nil {
		return nil, err
	}
	peers, err := pe.GetPeersList()
	if err != nil {
		return nil, err
	}
	return &zzView{pe: pe, peers: zzStablePeers(peers)}, nil
}

func (v *zzView) workload(name string) Peer {
	for _, p := range v.peers {
		if !p.IsPeerIPType() && p.String() == name {
			return p
		}
	}
	return nil
}

// den: (proto,x) allowed from src to dst, either a workload name or (isIP) the symbolic address
func (v *zzView) den(src, dst string, srcIP, dstIP bool, addr uint32, proto corev1.Protocol, x int64) (bool, bool) {
	r := false
	for _, p := range v.peers {
		if !p.IsPeerIPType() {
			continue
		}
		ivs := zzIPPeerIntervals(p)
		in := vf_And(ivs[0].Start() <= int64(addr), int64(addr) <= ivs[0].End())
		var s, d Peer
		if srcIP {
			s, d = p, v.workload(dst)
		} else if dstIP {
			s, d = v.workload(src), p
		} else {
			break
		}
		conns, err := v.pe.AllAllowedConnectionsBetweenWorkloadPeers(s, d)
		if err != nil {
			return false, false
		}
		r = vf_Or(r, vf_And(in, zzDenCS(conns, proto, x)))
	}
	if !srcIP && !dstIP {
		conns, err := v.pe.AllAllowedConnectionsBetweenWorkloadPeers(v.workload(src), v.workload(dst))
		if err != nil {
			return false, false
		}
		r = zzDenCS(conns, proto, x)
	}
	return r, true
}

const (
	zzRelEq       = iota
	zzRelSubset   // second ⊆ first (never adds)
	zzRelSuperset // second ⊇ first (never removes)
)

// zzCompare: relation between two views at every point; skip(src,dst) exempts pairs (locality side condition)
func zzCompare(v1, v2 *zzView, names []string, rel int, label string, only func(src, dst string) bool) {
	x := zzProbeX()
	addr := vf_Uint32("addr")
	type pt struct {
		s, d     string
		sIP, dIP bool
	}
	var pts []pt
	for _, a := range names {
		for _, b := range names {
			if a != b {
				pts = append(pts, pt{s: a, d: b})
			}
		}
		pts = append(pts, pt{s: a, dIP: true}, pt{d: a, sIP: true})
	}
	for _, p := range pts {
		if only != nil && !only(p.s, p.d) {
			continue
		}
		for _, proto := range zzProtos3 {
			d1, ok1 := v1.den(p.s, p.d, p.sIP, p.dIP, addr, proto, x)
			d2, ok2 := v2.den(p.s, p.d, p.sIP, p.dIP, addr, proto, x)
			if !ok1 || !ok2 {
				continue // the documented named-port-on-IP error in one of the worlds
			}
			switch rel {
			case zzRelEq:
				vf_Assert(vf_Iff(d1, d2), label)
			case zzRelSubset:
				vf_Assert(vf_Implies(d2, d1), label)
			case zzRelSuperset:
				vf_Assert(vf_Implies(d1, d2), label)
			}
		}
	}
}

func zzNames(g *zzGen) []string {
	var ns []string
	for _, p := range g.W.Pods {
		ns = append(ns, p.Ns+"/"+p.Name+"[Deployment]")
	}
	return ns
}

func zzWithPolicies(g *zzGen, nps ...*netv1.NetworkPolicy) []parser.K8sObject {
	var objs []parser.K8sObject
	for _, o := range g.Objs {
		if o.Kind != parser.NetworkPolicy {
			objs = append(objs, o)
		}
	}
	for _, np := range nps {
		objs = append(objs, parser.K8sObject{Kind: parser.NetworkPolicy, NetworkPolicy: np})
	}
	return objs
}

// C14 (a): adding a rule to a policy in a direction it already governs never removes a connection
func ZZ_C14_AddRule() {
	g := zzBaseWorld(true, true)
	var np *netv1.NetworkPolicy
	if vf_Tier() > 0 {
		np = g.zzGenNPx("np1", "ns1", false, true)
	} else {
		np = g.zzGenNPMenu("np1", "ns1", 2, 4, 2)
	}
	ing := vf_Choose("add.dir", 2) == 0
	vf_Assume(zzNPAffects(np, ing))
	np2 := np.DeepCopy()
	rn := "add"
	peers := g.zzPeersMenu(rn, vf_Choose(rn+".peers", zzNPeers))
	ports := zzPortsMenu(rn, vf_Choose(rn+".ports", 3))
	if ing {
		np2.Spec.Ingress = append(np2.Spec.Ingress, netv1.NetworkPolicyIngressRule{From: peers, Ports: ports})
	} else {
		np2.Spec.Egress = append(np2.Spec.Egress, netv1.NetworkPolicyEgressRule{To: peers, Ports: ports})
	}
	v1, err1 := zzViewOf(zzWithPolicies(g, np))
	v2, err2 := zzViewOf(zzWithPolicies(g, np2))
	vf_Assert(err1 == nil && err2 == nil, "engines-built")
	zzCompare(v1, v2, zzNames(g), zzRelSuperset, "adding-a-rule-never-removes", nil)
}

// C14 (b,c,d): adding a policy — additive when its pods were already governed, restrictive-only when they were
// ungoverned, and local in any case
func ZZ_C14_AddPolicy() {
	g := zzBaseWorld(true, true)
	var np1, np2 *netv1.NetworkPolicy
	if vf_Tier() > 0 {
		np1 = g.zzGenNPx("np1", "ns1", false, true)
		np2 = g.zzGenNPx("np2", "ns1", false, true)
	} else {
		np1 = g.zzGenNPMenu("np1", "ns1", 2, 2, 2)
		np2 = g.zzGenNPMenu("np2", "ns1", 3, 4, 2)
	}
	withBase := vf_Choose("base", 2) == 1
	var before []*netv1.NetworkPolicy
	if withBase {
		before = []*netv1.NetworkPolicy{np1}
	}
	after := append(append([]*netv1.NetworkPolicy{}, before...), np2)
	v1, err1 := zzViewOf(zzWithPolicies(g, before...))
	v2, err2 := zzViewOf(zzWithPolicies(g, after...))
	vf_Assert(err1 == nil && err2 == nil, "engines-built")
	names := zzNames(g)
	// classify np2's selected pods per direction
	allGoverned, allUngoverned := true, true
	selects := map[string][2]bool{}
	for _, p := range g.W.Pods {
		name := p.Ns + "/" + p.Name + "[Deployment]"
		var s [2]bool
		for di, ingDir := range []bool{true, false} {
			if !zzNPSelects(np2, p, ingDir) {
				continue
			}
			s[di] = true
			gov := false
			for _, b := range before {
				if zzNPSelects(b, p, ingDir) {
					gov = true
				}
			}
			if gov {
				allUngoverned = false
			} else {
				allGoverned = false
			}
		}
		selects[name] = s
	}
	if allGoverned {
		zzCompare(v1, v2, names, zzRelSuperset, "policy-on-governed-pods-never-removes", nil)
	}
	if allUngoverned {
		zzCompare(v1, v2, names, zzRelSubset, "policy-on-ungoverned-pods-never-adds", nil)
	}
	// locality: src not selected for egress and dst not selected for ingress => unchanged
	zzCompare(v1, v2, names, zzRelEq, "unselected-pairs-unchanged", func(src, dst string) bool {
		return !(src != "" && selects[src][1]) && !(dst != "" && selects[dst][0])
	})
}

// C14 (e): equivalent spellings give the same report
func ZZ_C14_Spellings() {
	g := zzBaseWorld(true, true)
	kind := vf_Choose("spelling", 5)
	var a, b []*netv1.NetworkPolicy
	base := func() *netv1.NetworkPolicy {
		return zzNetpolObj("ns1", "np1", netv1.NetworkPolicySpec{PodSelector: metav1.LabelSelector{MatchLabels: map[string]string{"app": "a"}}}).NetworkPolicy
	}
	ing := vf_Choose("dir", 2) == 0
	setRules := func(np *netv1.NetworkPolicy, peers [][]netv1.NetworkPolicyPeer, ports [][]netv1.NetworkPolicyPort) {
		for i := range peers {
			if ing {
				np.Spec.Ingress = append(np.Spec.Ingress, netv1.NetworkPolicyIngressRule{From: peers[i], Ports: ports[i]})
			} else {
				np.Spec.Egress = append(np.Spec.Egress, netv1.NetworkPolicyEgressRule{To: peers[i], Ports: ports[i]})
				np.Spec.PolicyTypes = []netv1.PolicyType{netv1.PolicyTypeEgress}
			}
		}
	}
	p, e := zzPortVar("p"), zzPortVar("e")
	vf_Assume(p <= e)
	rng := []netv1.NetworkPolicyPort{zzPortRange(corev1.ProtocolTCP, p, e)}
	podB := []netv1.NetworkPolicyPeer{{PodSelector: zzSel("app", "b")}}
	switch kind {
	case 0: // matchLabels{k:v}  <->  In [v]
		x, y := base(), base()
		setRules(x, [][]netv1.NetworkPolicyPeer{podB}, [][]netv1.NetworkPolicyPort{rng})
		inB := []netv1.NetworkPolicyPeer{{PodSelector: &metav1.LabelSelector{MatchExpressions: []metav1.LabelSelectorRequirement{{Key: "app", Operator: metav1.LabelSelectorOpIn, Values: []string{"b"}}}}}}
		setRules(y, [][]netv1.NetworkPolicyPeer{inB}, [][]netv1.NetworkPolicyPort{rng})
		y.Spec.PodSelector = metav1.LabelSelector{MatchExpressions: []metav1.LabelSelectorRequirement{{Key: "app", Operator: metav1.LabelSelectorOpIn, Values: []string{"a"}}}}
		a, b = []*netv1.NetworkPolicy{x}, []*netv1.NetworkPolicy{y}
	case 1: // one range  <->  two adjacent ranges split at a symbolic point
		m := zzPortVar("m")
		vf_Assume(vf_And(p <= m, m < e))
		x, y := base(), base()
		setRules(x, [][]netv1.NetworkPolicyPeer{podB}, [][]netv1.NetworkPolicyPort{rng})
		two := []netv1.NetworkPolicyPort{zzPortRange(corev1.ProtocolTCP, p, m), zzPortRange(corev1.ProtocolTCP, m+1, e)}
		if vf_Choose("split.order", 2) == 1 {
			two[0], two[1] = two[1], two[0]
		}
		setRules(y, [][]netv1.NetworkPolicyPeer{podB}, [][]netv1.NetworkPolicyPort{two})
		a, b = []*netv1.NetworkPolicy{x}, []*netv1.NetworkPolicy{y}
	case 2: // a CIDR  <->  its two halves (symbolic network bits, prefix length from the menu, n < 32)
		menu := []int{0, 8, 24, 31}
		n := menu[vf_Choose("cidr.len", len(menu))]
		hi := vf_Uint32N("cidr.hi", n)
		whole := vf_CidrStr(hi<<uint(32-n), n)
		lo := vf_CidrStr(hi<<uint(32-n), n+1)
		up := vf_CidrStr(hi<<uint(32-n)|uint32(1)<<uint(31-n), n+1)
		x, y := base(), base()
		setRules(x, [][]netv1.NetworkPolicyPeer{{{IPBlock: &netv1.IPBlock{CIDR: whole}}}}, [][]netv1.NetworkPolicyPort{rng})
		setRules(y, [][]netv1.NetworkPolicyPeer{{{IPBlock: &netv1.IPBlock{CIDR: lo}}, {IPBlock: &netv1.IPBlock{CIDR: up}}}}, [][]netv1.NetworkPolicyPort{rng})
		a, b = []*netv1.NetworkPolicy{x}, []*netv1.NetworkPolicy{y}
	case 3: // one policy  <->  its rules split over two policies with the same selector
		q := zzPortVar("q")
		other := []netv1.NetworkPolicyPort{zzPortNum(corev1.ProtocolUDP, q)}
		nsPeer := []netv1.NetworkPolicyPeer{{NamespaceSelector: zzSel(zzNsNameLabel, "ns2")}}
		x := base()
		setRules(x, [][]netv1.NetworkPolicyPeer{podB, nsPeer}, [][]netv1.NetworkPolicyPort{rng, other})
		y1, y2 := base(), base()
		y2.Name = "np2"
		setRules(y1, [][]netv1.NetworkPolicyPeer{podB}, [][]netv1.NetworkPolicyPort{rng})
		setRules(y2, [][]netv1.NetworkPolicyPeer{nsPeer}, [][]netv1.NetworkPolicyPort{other})
		a, b = []*netv1.NetworkPolicy{x}, []*netv1.NetworkPolicy{y1, y2}
	default: // explicit  <->  defaulted policyTypes
		x, y := base(), base()
		ing = vf_Choose("both", 2) == 0 // true: ingress rules only; false: egress rules (+ ingress governed by default)
		x.Spec.PolicyTypes, y.Spec.PolicyTypes = nil, nil
		if ing {
			x.Spec.Ingress = []netv1.NetworkPolicyIngressRule{{From: podB, Ports: rng}}
			y.Spec.Ingress = x.Spec.Ingress
			y.Spec.PolicyTypes = []netv1.PolicyType{netv1.PolicyTypeIngress}
			// the lists a decoder can hand over for "no rules": absent (nil) or present and empty
			switch vf_Choose("empty", 3) {
			case 1:
				x.Spec.Egress = []netv1.NetworkPolicyEgressRule{}
			case 2:
				x.Spec.Egress = []netv1.NetworkPolicyEgressRule{}
				x.Spec.Ingress = []netv1.NetworkPolicyIngressRule{}
				y.Spec.Ingress = nil
			}
		} else {
			x.Spec.Egress = []netv1.NetworkPolicyEgressRule{{To: podB, Ports: rng}}
			y.Spec.Egress = x.Spec.Egress
			y.Spec.PolicyTypes = []netv1.PolicyType{netv1.PolicyTypeIngress, netv1.PolicyTypeEgress}
		}
		a, b = []*netv1.NetworkPolicy{x}, []*netv1.NetworkPolicy{y}
	}
	v1, err1 := zzViewOf(zzWithPolicies(g, a...))
	v2, err2 := zzViewOf(zzWithPolicies(g, b...))
	vf_Assert(err1 == nil && err2 == nil, "engines-built")
	zzCompare(v1, v2, zzNames(g), zzRelEq, "equivalent-spellings-agree", nil)
}
