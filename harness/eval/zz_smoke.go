package eval

import (
	corev1 "k8s.io/api/core/v1"
	netv1 "k8s.io/api/networking/v1"
	metav1 "k8s.io/apimachinery/pkg/apis/meta/v1"

	"github.com/np-guard/netpol-analyzer/pkg/manifests/parser"
)

func ZZ_Smoke_Eval1() {
	p := vf_Int32N("p", 17)
	e := vf_Int32N("e", 17)
	vf_Assume(vf_And(p >= 1, e <= 65535, p <= e))
	x := vf_Int64N("x", 17)
	vf_Assume(vf_And(x >= 1, x <= 65535))
	objs := []parser.K8sObject{
		zzDeployObj("default", "a", map[string]string{"app": "a"}, nil),
		zzDeployObj("default", "b", map[string]string{"app": "b"}, nil),
		zzNetpolObj("default", "np1", netv1.NetworkPolicySpec{
			PodSelector: metav1.LabelSelector{MatchLabels: map[string]string{"app": "a"}},
			Ingress: []netv1.NetworkPolicyIngressRule{{
				From:  []netv1.NetworkPolicyPeer{{PodSelector: zzSel("app", "b")}},
				Ports: []netv1.NetworkPolicyPort{zzPortRange(corev1.ProtocolTCP, p, e)},
			}},
		}),
	}
	pe, err := NewPolicyEngineWithObjects(objs)
	vf_Assert(err == nil, "engine-built")
	peers, err := pe.GetPeersList()
	vf_Assert(err == nil, "peers")
	vf_Observe("npeers", len(peers))
	var a, b Peer
	for _, pr := range peers {
		if pr.Name() == "a" {
			a = pr
		}
		if pr.Name() == "b" {
			b = pr
		}
	}
	conns, err := pe.AllAllowedConnectionsBetweenWorkloadPeers(b, a)
	vf_Assert(err == nil, "conns")
	vf_Assert(vf_Iff(zzDenCS(conns, corev1.ProtocolTCP, x), vf_And(int64(p) <= x, x <= int64(e))), "tcp-denotation")
	vf_Assert(vf_Not(zzDenCS(conns, corev1.ProtocolUDP, x)), "udp-denotation")
	conns2, err := pe.AllAllowedConnectionsBetweenWorkloadPeers(a, b)
	vf_Assert(err == nil && conns2.AllowAll, "reverse-all")
	vf_Observe("conns", conns.String())
}
