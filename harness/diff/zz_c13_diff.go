package diff

import (
	corev1 "k8s.io/api/core/v1"
	netv1 "k8s.io/api/networking/v1"
	metav1 "k8s.io/apimachinery/pkg/apis/meta/v1"
	"k8s.io/cli-runtime/pkg/resource"

	"github.com/np-guard/netpol-analyzer/pkg/manifests/parser"
)

func zzC13Good(name string, withPolicy bool) []parser.K8sObject {
	objs := []parser.K8sObject{
		zzNsObj("ns1", nil),
		zzDeployObj("ns1", "a", map[string]string{"app": "a"}, nil),
		zzDeployObj("ns1", "b", map[string]string{"app": "b"}, nil),
	}
	if withPolicy {
		p, e := zzPortVar(name+".p"), zzPortVar(name+".e")
		vf_Assume(p <= e)
		objs = append(objs, zzNetpolObj("ns1", "np1", netv1.NetworkPolicySpec{
			PodSelector: metav1.LabelSelector{MatchLabels: map[string]string{"app": "a"}},
			Ingress: []netv1.NetworkPolicyIngressRule{{From: []netv1.NetworkPolicyPeer{{PodSelector: zzSel("app", "b")}},
				Ports: []netv1.NetworkPolicyPort{zzPortRange(corev1.ProtocolTCP, p, e)}}},
		}))
	}
	return objs
}

type zzDiffRow struct {
	key, c1, c2 string
	typ         DiffTypeStr
}

func zzDiffRows(d ConnectivityDiff) []zzDiffRow {
	var rows []zzDiffRow
	for _, list := range [][]SrcDstDiff{d.RemovedConnections(), d.AddedConnections(), d.ChangedConnections(), d.UnchangedConnections()} {
		for _, e := range list {
			rows = append(rows, zzDiffRow{key: e.Src().String() + ";" + e.Dst().String(), typ: e.DiffType(),
				c1: zzConnText(e.Ref1Connectivity()), c2: zzConnText(e.Ref2Connectivity())})
		}
	}
	return rows
}

// C13 (diff mode): irrelevant / malformed documents in either input never change the diff; each malformed one is
// a severe error; with stop-on-first-error a severe error yields no connections; a fatal error always yields an
// error and no result — also when a malformed document was seen before it
func ZZ_C13_DiffBadDocuments() {
	good1 := zzC13Good("r1", true)
	good2 := zzC13Good("r2", vf_Choose("r2.policy", 2) == 1)
	base, err := NewDiffAnalyzer().ConnDiffFromResourceInfos(zzInfosOf(good1), zzInfosOf(good2))
	vf_Assert(err == nil && base != nil, "clean-inputs-diffed")
	if err != nil || base == nil {
		return
	}
	infos := [][]*resource.Info{zzInfosOf(good1), zzInfosOf(good2)}
	nbad := vf_Choose("nbad", 2+vf_Tier()) // quick: at most one injected document (plus the fatal one); thorough: two
	var sevIn [2]int
	for i := 0; i < nbad; i++ {
		bi, sev := zzBadInfo(vf_Choose([]string{"bad0", "bad1"}[i], 3))
		ref := vf_Choose([]string{"ref0", "ref1"}[i], 2)
		if sev {
			sevIn[ref]++
		}
		pos := 0
		if vf_Choose([]string{"pos0", "pos1"}[i], 2) == 1 {
			pos = len(infos[ref])
		}
		infos[ref] = zzInsertInfo(infos[ref], pos, bi)
	}
	fatal := vf_Choose("fatal", 3) // 0 none, 1 in ref1, 2 in ref2 (after whatever was injected before it)
	if fatal > 0 {
		infos[fatal-1] = append(infos[fatal-1], zzC13Fatal())
	}
	stop := vf_Choose("stop", 2) == 1
	opts := []DiffAnalyzerOption{}
	if stop {
		opts = append(opts, WithStopOnError())
	}
	da := NewDiffAnalyzer(opts...)
	d, err := da.ConnDiffFromResourceInfos(infos[0], infos[1])
	sev, fat := 0, 0
	for _, de := range da.Errors() {
		if de.IsSevere() {
			sev++
		}
		if de.IsFatal() {
			fat++
		}
	}
	noResult := d == nil
	if cd, ok := d.(*connectivityDiff); ok && cd == nil {
		noResult = true // a nil *connectivityDiff inside the interface: nothing to read either
	}
	entries := 0
	if !noResult {
		entries = len(d.RemovedConnections()) + len(d.AddedConnections()) + len(d.ChangedConnections()) + len(d.UnchangedConnections())
	}
	// the inputs are read in order; reading stops at the first input with a severe error under stop-on-first-error,
	// or with a fatal error
	for ref := 0; ref < 2; ref++ {
		if stop && sevIn[ref] > 0 {
			vf_Assert(sev >= 1, "each-malformed-document-is-a-severe-error")
			vf_Assert(err != nil || entries == 0, "stop-on-error-yields-no-connections")
			return
		}
		if fatal == ref+1 {
			vf_Assert(sev == sevIn[0]+sevIn[1]*ref, "each-malformed-document-is-a-severe-error")
			vf_Assert(err != nil, "fatal-error-yields-an-error")
			vf_Assert(noResult, "fatal-error-yields-no-result")
			vf_Assert(fat >= 1, "fatal-error-recorded")
			return
		}
	}
	vf_Assert(sev == sevIn[0]+sevIn[1], "each-malformed-document-is-a-severe-error")
	vf_Assert(err == nil && d != nil, "analysis-continues")
	if err != nil || d == nil {
		return
	}
	want, got := zzDiffRows(base), zzDiffRows(d)
	vf_Assert(len(want) == len(got), "same-diff-entries")
	for _, w := range want {
		found := false
		for _, g := range got {
			if g.key == w.key {
				found = true
				vf_Assert(g.typ == w.typ, "same-diff-type")
				vf_Assert(g.c1 == w.c1, "same-ref1-connections")
				vf_Assert(g.c2 == w.c2, "same-ref2-connections")
			}
		}
		vf_Assert(found, "same-diff-entries")
	}
	vf_Observe("rows", len(got))
}

// C13 through the directory API of diff: a syntactically broken file in the first and/or the second directory (at any
// position among the documents) is reported as one severe error each, attributed to its own directory, and the diff
// equals the diff of the clean directories; with stop-on-first-error the call fails. The scanner is the environment stub
// of DESIGN 3.2 (natively: real files read by the real scanner).
func ZZ_C13_DiffDirPaths() {
	good1 := zzC13Good("r1", true)
	good2 := zzC13Good("r2", vf_Choose("r2.policy", 2) == 1)
	base, err := NewDiffAnalyzer().ConnDiffFromResourceInfos(zzInfosOf(good1), zzInfosOf(good2))
	vf_Assert(err == nil && base != nil, "clean-inputs-diffed")
	if err != nil || base == nil {
		return
	}
	infos1, infos2 := zzInfosOf(good1), zzInfosOf(good2)
	var bad1, bad2 []int
	if vf_Choose("broken1", 2) == 1 {
		bad1 = []int{vf_Choose("broken1.pos", len(infos1)+1)}
	}
	if vf_Choose("broken2", 2) == 1 {
		bad2 = []int{vf_Choose("broken2.pos", len(infos2)+1)}
	}
	dir1 := vf_RegisterDir("c13d1", infos1, bad1, nil)
	dir2 := vf_RegisterDir("c13d2", infos2, bad2, nil)
	stop := vf_Choose("stop", 2) == 1
	opts := []DiffAnalyzerOption{}
	if stop {
		opts = append(opts, WithStopOnError())
	}
	da := NewDiffAnalyzer(opts...)
	d, err := da.ConnDiffFromDirPaths(dir1, dir2)
	sevIn1, sevIn2, other := 0, 0, 0
	for _, de := range da.Errors() {
		vf_Assert(!de.IsFatal() || stop, "no-fatal-error")
		if de.IsSevere() {
			switch de.Location() {
			case "in file: " + dir1:
				sevIn1++
			case "in file: " + dir2:
				sevIn2++
			default:
				other++
			}
		}
	}
	nbad := len(bad1) + len(bad2)
	if stop && nbad > 0 {
		vf_Assert(err != nil, "stop-on-error-fails")
		vf_Assert(len(da.Errors()) >= 1, "stop-on-error-records-the-error")
		return
	}
	vf_Assert(sevIn1 == len(bad1), "broken-file-of-dir1-reported-for-dir1")
	vf_Assert(sevIn2 == len(bad2), "broken-file-of-dir2-reported-for-dir2")
	vf_Assert(other == 0, "no-other-severe-error")
	vf_Assert(err == nil && d != nil, "analysis-continues")
	if err != nil || d == nil {
		return
	}
	want, got := zzDiffRows(base), zzDiffRows(d)
	vf_Assert(len(want) == len(got), "same-diff-entries")
	for _, w := range want {
		found := false
		for _, g := range got {
			if g.key == w.key {
				found = true
				vf_Assert(g.typ == w.typ && g.c1 == w.c1 && g.c2 == w.c2, "same-diff-entry")
			}
		}
		vf_Assert(found, "same-diff-entries")
	}
	vf_Observe("rows", len(got))
}
