package diff

import (
	corev1 "k8s.io/api/core/v1"
	netv1 "k8s.io/api/networking/v1"
	metav1 "k8s.io/apimachinery/pkg/apis/meta/v1"

	"github.com/np-guard/netpol-analyzer/pkg/manifests/parser"
	"github.com/np-guard/netpol-analyzer/pkg/netpol/connlist"
)

// C08 for the diff report: the txt / md / dot texts of a diff do not depend on the order of the documents of either
// input nor on the map-iteration order of the runtime (a scheduler choice of the engine in the second run). The worlds
// make the ip-block merging of the diff (string-keyed maps) matter: an egress CIDR that moves between the inputs, two
// CIDRs on one side, symbolic port ranges on both sides (the solver also covers the case of equal connection texts).

func zzC08DiffSide(name string, shape int, rev bool) []parser.K8sObject {
	base := []parser.K8sObject{zzNsObj("ns1", nil), zzDeployObj("ns1", "a", map[string]string{"app": "a"}, nil), zzDeployObj("ns1", "b", map[string]string{"app": "b"}, nil)}
	var pol []parser.K8sObject
	if shape > 0 {
		p, e := zzPortVar(name+".p"), zzPortVar(name+".e")
		vf_Assume(p <= e)
		ports := []netv1.NetworkPolicyPort{zzPortRange(corev1.ProtocolTCP, p, e)}
		var to []netv1.NetworkPolicyPeer
		switch shape {
		case 1:
			to = []netv1.NetworkPolicyPeer{{IPBlock: &netv1.IPBlock{CIDR: "10.0.0.0/24"}}}
		case 2:
			to = []netv1.NetworkPolicyPeer{{IPBlock: &netv1.IPBlock{CIDR: "10.1.0.0/24"}}}
		default:
			to = []netv1.NetworkPolicyPeer{{IPBlock: &netv1.IPBlock{CIDR: "10.0.0.0/24"}}, {IPBlock: &netv1.IPBlock{CIDR: "10.2.0.0/24"}}}
		}
		if rev && len(to) > 1 {
			to[0], to[1] = to[1], to[0]
		}
		spec := netv1.NetworkPolicySpec{
			PodSelector: metav1.LabelSelector{MatchLabels: map[string]string{"app": "a"}},
			PolicyTypes: []netv1.PolicyType{netv1.PolicyTypeIngress, netv1.PolicyTypeEgress},
			Ingress:     []netv1.NetworkPolicyIngressRule{{From: []netv1.NetworkPolicyPeer{{PodSelector: zzSel("app", "b")}}, Ports: ports}},
			Egress:      []netv1.NetworkPolicyEgressRule{{To: to, Ports: ports}},
		}
		pol = []parser.K8sObject{zzNetpolObj("ns1", "np1", spec)}
	}
	if rev {
		out := append([]parser.K8sObject{}, pol...)
		for i := len(base) - 1; i >= 0; i-- {
			out = append(out, base[i])
		}
		return out
	}
	return append(base, pol...)
}

func zzC08DiffRender(objs1, objs2 []parser.K8sObject) ([]string, bool) {
	conns1, peers1, err := connlist.ZZConnsFromObjects(connlist.NewConnlistAnalyzer(connlist.WithMuteErrsAndWarns()), objs1)
	if err != nil {
		return nil, false
	}
	conns2, peers2, err := connlist.ZZConnsFromObjects(connlist.NewConnlistAnalyzer(connlist.WithMuteErrsAndWarns()), objs2)
	if err != nil {
		return nil, false
	}
	da := NewDiffAnalyzer(WithArgNames("dir1", "dir2"))
	d, err := da.computeDiffFromConnlistResults(conns1, conns2, peers1, peers2)
	if err != nil {
		return nil, false
	}
	var outs []string
	for _, f := range []string{"txt", "md", "dot"} {
		da.outputFormat = f
		s, err := da.ConnectivityDiffToString(d)
		if err != nil {
			return nil, false
		}
		outs = append(outs, s)
	}
	return outs, true
}

func ZZ_C08_Diff() {
	s1, s2 := []int{1, 3}[vf_Choose("r1.shape", 2)], []int{0, 2, 3}[vf_Choose("r2.shape", 3)]
	vf_Schedule(false)
	o1, ok1 := zzC08DiffRender(zzC08DiffSide("r1", s1, false), zzC08DiffSide("r2", s2, false))
	vf_Schedule(true)
	o2, ok2 := zzC08DiffRender(zzC08DiffSide("r1", s1, true), zzC08DiffSide("r2", s2, true))
	vf_Schedule(false)
	vf_Assert(ok1 && ok2, "diff-rendered-in-every-order")
	if ok1 && ok2 {
		for i, f := range []string{"txt", "md", "dot"} {
			vf_Assert(o1[i] == o2[i], "same-diff-text-in-every-order-"+f)
		}
	}
}
