package diff

import (
	"sort"
	"strings"

	corev1 "k8s.io/api/core/v1"
	netv1 "k8s.io/api/networking/v1"
	metav1 "k8s.io/apimachinery/pkg/apis/meta/v1"

	"github.com/np-guard/netpol-analyzer/pkg/manifests/parser"
	"github.com/np-guard/netpol-analyzer/pkg/netpol/connlist"
)

// C09 (partial: txt and md of the diff report): the rendered text is exactly the encoding of the computed
// added / removed / changed entries with their two connection values and workload annotations. Reference encoder
// written from the layout of the formats; a connection is rendered through ConnectionSet.String (not the formatter's
// ConnStrFromConnProperties); texts carry symbolic ports and are compared by the solver.

// zzC09Ingress: workloads w0, w1, w2 and Services + Ingress objects such that, between side 1 and side 2, the
// ingress-controller connection of w0 changes (another service port), that of w1 is removed and that of w2 is added
func zzC09Ingress(side int) []parser.K8sObject {
	two := []corev1.ContainerPort{{Name: "web", ContainerPort: 8080, Protocol: corev1.ProtocolTCP}, {Name: "adm", ContainerPort: 9090, Protocol: corev1.ProtocolTCP}}
	one := two[:1]
	objs := []parser.K8sObject{
		zzDeployObj("ns1", "w0", map[string]string{"app": "w0"}, two),
		zzDeployObj("ns1", "w1", map[string]string{"app": "w1"}, one),
		zzDeployObj("ns1", "w2", map[string]string{"app": "w2"}, one),
	}
	mkSvc := func(name, app string, port int32) parser.K8sObject {
		return parser.K8sObject{Kind: parser.Service, Service: &corev1.Service{
			TypeMeta: metav1.TypeMeta{Kind: "Service", APIVersion: "v1"}, ObjectMeta: metav1.ObjectMeta{Name: name, Namespace: "ns1"},
			Spec: corev1.ServiceSpec{Selector: map[string]string{"app": app}, Ports: []corev1.ServicePort{{Name: "p", Port: port}}}}}
	}
	mkIng := func(name, svc string, port int32) parser.K8sObject {
		return parser.K8sObject{Kind: parser.Ingress, Ingress: &netv1.Ingress{
			TypeMeta: metav1.TypeMeta{Kind: "Ingress", APIVersion: "networking.k8s.io/v1"}, ObjectMeta: metav1.ObjectMeta{Name: name, Namespace: "ns1"},
			Spec: netv1.IngressSpec{DefaultBackend: &netv1.IngressBackend{Service: &netv1.IngressServiceBackend{Name: svc, Port: netv1.ServiceBackendPort{Number: port}}}}}}
	}
	if side == 1 {
		return append(objs, mkSvc("s0", "w0", 8080), mkIng("i0", "s0", 8080), mkSvc("s1", "w1", 8080), mkIng("i1", "s1", 8080))
	}
	return append(objs, mkSvc("s0", "w0", 9090), mkIng("i0", "s0", 9090), mkSvc("s2", "w2", 8080), mkIng("i2", "s2", 8080))
}

func zzC09Side(name string, variant int, withC, noB bool) []parser.K8sObject {
	objs := []parser.K8sObject{zzNsObj("ns1", nil), zzDeployObj("ns1", "a", map[string]string{"app": "a"}, nil)}
	if !noB {
		objs = append(objs, zzDeployObj("ns1", "b", map[string]string{"app": "b"}, nil))
	}
	if withC {
		objs = append(objs, zzDeployObj("ns1", "c", map[string]string{"app": "b"}, nil))
	}
	if variant == 0 {
		return objs
	}
	p, e := zzPortVar(name+".p"), zzPortVar(name+".e")
	vf_Assume(p <= e)
	ports := []netv1.NetworkPolicyPort{zzPortRange(corev1.ProtocolTCP, p, e)}
	if variant == 2 {
		ports = append(ports, zzPortNum(corev1.ProtocolUDP, zzPortVar(name+".u")))
	}
	spec := netv1.NetworkPolicySpec{
		PodSelector: metav1.LabelSelector{MatchLabels: map[string]string{"app": "a"}},
		PolicyTypes: []netv1.PolicyType{netv1.PolicyTypeIngress, netv1.PolicyTypeEgress},
		Ingress:     []netv1.NetworkPolicyIngressRule{{From: []netv1.NetworkPolicyPeer{{PodSelector: zzSel("app", "b")}}, Ports: ports}},
		Egress: []netv1.NetworkPolicyEgressRule{{To: []netv1.NetworkPolicyPeer{{IPBlock: &netv1.IPBlock{CIDR: "10.0.0.0/8", Except: []string{"10.1.0.0/16"}}}},
			Ports: ports[:1]}},
	}
	return append(objs, zzNetpolObj("ns1", "np1", spec))
}

func zzC09Conn(a AllowedConnectivity) string {
	return connlist.GetConnectionSetFromP2PConnection(connlist.NewPeer2PeerConnection(nil, nil, a.AllProtocolsAndPorts(), a.ProtocolsAndPorts())).String()
}

type zzDiffLine struct{ typ, src, dst, c1, c2, info string }

func zzC09Lines(list []SrcDstDiff, typ DiffTypeStr) []zzDiffLine {
	var out []zzDiffLine
	for _, e := range list {
		l := zzDiffLine{typ: string(typ), src: e.Src().String(), dst: e.Dst().String(), c1: "No Connections", c2: "No Connections"}
		if typ != AddedType {
			l.c1 = zzC09Conn(e.Ref1Connectivity())
		}
		if typ != RemovedType {
			l.c2 = zzC09Conn(e.Ref2Connectivity())
		}
		if e.IsSrcNewOrRemoved() || e.IsDstNewOrRemoved() {
			var names []string
			if e.IsSrcNewOrRemoved() {
				names = append(names, l.src)
			}
			if e.IsDstNewOrRemoved() {
				names = append(names, l.dst)
			}
			l.info = "workload " + strings.Join(names, " and ") + " " + string(typ)
		}
		out = append(out, l)
	}
	return out
}

func ZZ_C09_DiffTxtMd() {
	wl := vf_Choose("workloads", 3) // 0 same, 1 ref2 has the new workload c, 2 ref2 lost b
	objs1 := zzC09Side("r1", 1+vf_Choose("r1.variant", 2), false, false)
	objs2 := zzC09Side("r2", vf_Choose("r2.variant", 3), wl == 1, wl == 2)
	if vf_Choose("ingress", 2) == 1 {
		objs1 = append(objs1, zzC09Ingress(1)...)
		objs2 = append(objs2, zzC09Ingress(2)...)
	}
	conns1, peers1, err := connlist.ZZConnsFromObjects(connlist.NewConnlistAnalyzer(connlist.WithMuteErrsAndWarns()), objs1)
	vf_Assert(err == nil, "list-1")
	conns2, peers2, err := connlist.ZZConnsFromObjects(connlist.NewConnlistAnalyzer(connlist.WithMuteErrsAndWarns()), objs2)
	vf_Assert(err == nil, "list-2")
	da := NewDiffAnalyzer(WithArgNames("dir1", "dir2"))
	d, err := da.computeDiffFromConnlistResults(conns1, conns2, peers1, peers2)
	vf_Assert(err == nil, "diff-computed")
	if err != nil {
		return
	}
	cats := [][]zzDiffLine{zzC09Lines(d.ChangedConnections(), ChangedType), zzC09Lines(d.AddedConnections(), AddedType), zzC09Lines(d.RemovedConnections(), RemovedType)}
	// per category the lines are sorted; the lines whose source is the ingress controller follow all the others
	render := func(f func(l zzDiffLine) string) []string {
		var all []string
		for _, ingress := range []bool{false, true} {
			for _, c := range cats {
				var ls []string
				for _, l := range c {
					if (l.src == "{ingress-controller}") == ingress {
						ls = append(ls, f(l))
					}
				}
				sort.Strings(ls)
				all = append(all, ls...)
			}
		}
		return all
	}
	n := len(cats[0]) + len(cats[1]) + len(cats[2])

	da.outputFormat = "txt"
	txt, err := da.ConnectivityDiffToString(d)
	vf_Assert(err == nil, "txt-rendered")
	want := ""
	if n > 0 {
		lines := append([]string{"Connectivity diff:"}, render(func(l zzDiffLine) string {
			s := "diff-type: " + l.typ + ", source: " + l.src + ", destination: " + l.dst + ", dir1: " + l.c1 + ", dir2: " + l.c2
			if l.info != "" {
				s += ", workloads-diff-info: " + l.info
			}
			return s
		})...)
		want = strings.Join(lines, "\n") + "\n"
	}
	vf_Assert(txt == want, "txt-encodes-exactly-the-diff")

	da.outputFormat = "md"
	md, err := da.ConnectivityDiffToString(d)
	vf_Assert(err == nil, "md-rendered")
	wantMd := ""
	if n > 0 {
		lines := append([]string{"| diff-type | source | destination | dir1 | dir2 | workloads-diff-info |\n|-----------|--------|-------------|------|------|---------------------|"},
			render(func(l zzDiffLine) string {
				return "| " + l.typ + " | " + l.src + " | " + l.dst + " | " + l.c1 + " | " + l.c2 + " | " + l.info + " |"
			})...)
		wantMd = strings.Join(lines, "\n")
	}
	vf_Assert(md == wantMd, "md-encodes-exactly-the-diff")
	vf_Observe("entries", n)
}
