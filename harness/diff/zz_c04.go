package diff

import (
	corev1 "k8s.io/api/core/v1"
	netv1 "k8s.io/api/networking/v1"
	metav1 "k8s.io/apimachinery/pkg/apis/meta/v1"

	"github.com/np-guard/netpol-analyzer/pkg/manifests/parser"
	"github.com/np-guard/netpol-analyzer/pkg/netpol/connlist"
)

const zzA = "ns1/a[Deployment]"

// port shapes with concrete contents (the diff compares and keys connections by their text)
func zzC04Ports(k int) []netv1.NetworkPolicyPort {
	switch k {
	case 1:
		return []netv1.NetworkPolicyPort{zzPortNum(corev1.ProtocolTCP, 80)}
	case 2:
		return []netv1.NetworkPolicyPort{zzPortRange(corev1.ProtocolTCP, 80, 90), {Protocol: zzProtoPtr(corev1.ProtocolUDP)}}
	}
	return nil
}

// zzC04Opt: which dimensions a harness opens (each harness opens a few, to keep the product of choices small)
type zzC04Opt struct {
	nIP, nPod int  // port-shape menus of the ipBlock rule and of the pod rule
	ex, blk2  bool // optional except inside the block; optional second block with other ports
	blk2Only  bool // the second block is always there
	ns2       bool // a second workload named a in ns2, optionally governed by the same policy
	ingress   bool // the policy governs ingress (ranges are sources) instead of egress
}

// one side: workloads a, b in ns1 (and c if withC; b absent if noB), optionally a second workload named a in ns2;
// optionally a policy on app=a with a rule for an ipBlock with symbolic network bits (optionally an except),
// optionally a rule for a second ipBlock with other ports, and a rule for app=b; optionally the same policy in ns2
func zzC04Side(side string, book *zzCidrBook, withC, noB bool) []parser.K8sObject {
	o := zzC04Opt{nIP: 3, nPod: 3, ex: true}
	if vf_Tier() == 0 { // quick: prefix lengths {0,24}; fewer port shapes; an except on side 1 only
		book.menu = []int{0, 24}
		o = zzC04Opt{nIP: 1, nPod: 1, ex: true}
		if side == "s2" {
			o = zzC04Opt{nIP: 2, nPod: 2}
		}
	}
	return zzC04SideX(side, book, withC, noB, o)
}

func zzC04SideX(side string, book *zzCidrBook, withC, noB bool, o zzC04Opt) []parser.K8sObject {
	objs := []parser.K8sObject{zzDeployObj("ns1", "a", map[string]string{"app": "a"}, nil)}
	if o.ns2 {
		objs = append(objs, zzDeployObj("ns2", "a", map[string]string{"app": "a"}, nil))
	}
	if !noB {
		objs = append(objs, zzDeployObj("ns1", "b", map[string]string{"app": "b"}, nil))
	}
	if withC {
		objs = append(objs, zzDeployObj("ns1", "c", map[string]string{"app": "b"}, nil))
	}
	nPol := 2
	if o.ns2 {
		nPol = 3
	}
	pol := vf_Choose(side+".policy", nPol) // 0 none, 1 in ns1, 2 the same policy in ns1 and in ns2
	if pol == 0 {
		return objs // no policy: everything allowed
	}
	blk := &netv1.IPBlock{CIDR: book.New(side + ".cidr")}
	c := book.last()
	if o.ex && vf_Choose(side+".nex", 2) == 1 {
		ex := book.New(side + ".ex")
		vf_Assume(zzCidrInside(book.last(), c))
		blk.Except = []string{ex}
	}
	ipPorts := vf_Choose(side+".ipports", o.nIP)
	peersRules := [][]netv1.NetworkPolicyPeer{{{IPBlock: blk}}}
	portsRules := [][]netv1.NetworkPolicyPort{zzC04Ports(ipPorts)}
	if o.blk2 && (o.blk2Only || vf_Choose(side+".blk2", 2) == 1) {
		// a second block with ports different from the first one's
		blk2 := &netv1.IPBlock{CIDR: book.New(side + ".cidr2")}
		peersRules = append(peersRules, []netv1.NetworkPolicyPeer{{IPBlock: blk2}})
		portsRules = append(portsRules, zzC04Ports((ipPorts+1)%3))
	}
	peersRules = append(peersRules, []netv1.NetworkPolicyPeer{{PodSelector: zzSel("app", "b")}})
	portsRules = append(portsRules, zzC04Ports(vf_Choose(side+".podports", o.nPod)))
	mk := func(ns string) parser.K8sObject {
		spec := netv1.NetworkPolicySpec{PodSelector: metav1.LabelSelector{MatchLabels: map[string]string{"app": "a"}}}
		for i := range peersRules {
			if o.ingress {
				spec.PolicyTypes = []netv1.PolicyType{netv1.PolicyTypeIngress}
				spec.Ingress = append(spec.Ingress, netv1.NetworkPolicyIngressRule{From: peersRules[i], Ports: portsRules[i]})
			} else {
				spec.PolicyTypes = []netv1.PolicyType{netv1.PolicyTypeEgress}
				spec.Egress = append(spec.Egress, netv1.NetworkPolicyEgressRule{To: peersRules[i], Ports: portsRules[i]})
			}
		}
		return zzNetpolObj(ns, "np1", spec)
	}
	objs = append(objs, mk("ns1"))
	if pol == 2 {
		objs = append(objs, mk("ns2"))
	}
	return objs
}

type zzCell struct {
	in   bool   // the symbolic address lies in this entry's IP range
	conn string // canonical text of the entry's connection
}

// zzIPSide: the entry is between the focus workload and an IP range in the given direction; returns the range text
func zzIPSide(src, dst Peer, focus string, focusIsSrc bool) (string, bool) {
	if focusIsSrc {
		if src.String() != focus || !dst.IsPeerIPType() {
			return "", false
		}
		return dst.String(), true
	}
	if dst.String() != focus || !src.IsPeerIPType() {
		return "", false
	}
	return src.String(), true
}

// zzCellsFor: the entries of a report between the focus workload and IP ranges, as cells over the symbolic address
func zzCellsFor(conns []connlist.Peer2PeerConnection, addr uint32, focus string, focusIsSrc bool) []zzCell {
	var cells []zzCell
	for _, c := range conns {
		r, ok := zzIPSide(c.Src(), c.Dst(), focus, focusIsSrc)
		if !ok {
			continue
		}
		lo, hi := vf_IPRangeLo(r), vf_IPRangeHi(r)
		cells = append(cells, zzCell{in: vf_And(lo <= addr, addr <= hi), conn: connlist.GetConnectionSetFromP2PConnection(c).String()})
	}
	return cells
}

func zzConnText(a AllowedConnectivity) string {
	return connlist.GetConnectionSetFromP2PConnection(connlist.NewPeer2PeerConnection(nil, nil, a.AllProtocolsAndPorts(), a.ProtocolsAndPorts())).String()
}

// zzC04CheckIP: for the point (focus workload, symbolic address) in one direction: exactly one covering diff entry
// when either report has a connection there, none otherwise; the entry carries exactly c1 and c2 and the matching type
func zzC04CheckIP(conns1, conns2 []connlist.Peer2PeerConnection, all [][]SrcDstDiff, types []DiffTypeStr, addr uint32, focus string, focusIsSrc bool) {
	cells1, cells2 := zzCellsFor(conns1, addr, focus, focusIsSrc), zzCellsFor(conns2, addr, focus, focusIsSrc)
	has1, has2 := false, false
	for _, c := range cells1 {
		has1 = vf_Or(has1, c.in)
	}
	for _, c := range cells2 {
		has2 = vf_Or(has2, c.in)
	}
	cnt := 0
	for li, list := range all {
		for _, e := range list {
			vf_Assert(e.DiffType() == types[li], "entry-in-the-list-of-its-type")
			r, isIP := zzIPSide(e.Src(), e.Dst(), focus, focusIsSrc)
			if !isIP {
				continue
			}
			cov := vf_And(vf_IPRangeLo(r) <= addr, addr <= vf_IPRangeHi(r))
			cnt = cnt + vf_IteInt(cov, 1, 0)
			t1, t2 := zzConnText(e.Ref1Connectivity()), zzConnText(e.Ref2Connectivity())
			// the entry carries exactly c1 and c2 of the point and has the matching type
			ok := false
			for _, c1 := range cells1 {
				for _, c2 := range cells2 {
					want := ChangedType
					if c1.conn == c2.conn {
						want = UnchangedType
					}
					if e.DiffType() == want && t1 == c1.conn && t2 == c2.conn {
						ok = vf_Or(ok, vf_And(c1.in, c2.in))
					}
				}
				if e.DiffType() == RemovedType && t1 == c1.conn {
					ok = vf_Or(ok, vf_And(c1.in, vf_Not(has2)))
				}
			}
			for _, c2 := range cells2 {
				if e.DiffType() == AddedType && t2 == c2.conn {
					ok = vf_Or(ok, vf_And(c2.in, vf_Not(has1)))
				}
			}
			vf_Assert(vf_Implies(cov, ok), "ip-entry-carries-the-two-reports")
			vf_Assert(!e.IsSrcNewOrRemoved() && !e.IsDstNewOrRemoved(), "ip-entry-flags")
		}
	}
	vf_Assert(cnt == vf_IteInt(vf_Or(has1, has2), 1, 0), "exactly-one-covering-entry")
}

// C04: the diff is pointwise exact with respect to the two reports, for the pair (workload a, one symbolic
// external address) and for the workload pairs
func ZZ_C04_DiffPointwise() {
	book := &zzCidrBook{}
	wl := vf_Choose("workloads", 3) // 0 same, 1 side 2 has the new workload c, 2 side 2 lost b
	objs1 := zzC04Side("s1", book, false, false)
	objs2 := zzC04Side("s2", book, wl == 1, wl == 2)
	zzC04Check(objs1, objs2, []string{zzA}, []bool{true})
}

// two blocks with different ports on one side against one block on the other: ranges with equal c1 and different
// non-empty c2 (and the converse) must stay separate entries
func ZZ_C04_TwoBlocks() {
	book := &zzCidrBook{}
	if vf_Tier() == 0 {
		book.menu = []int{0, 24}
	} else {
		book.menu = []int{0, 8, 24, 32}
	}
	one := zzC04Opt{nIP: 2, nPod: 1}
	two := zzC04Opt{nIP: 2, nPod: 1, blk2: true}
	if vf_Tier() == 0 {
		one = zzC04Opt{nIP: 1, nPod: 1}
		two = zzC04Opt{nIP: 1, nPod: 1, blk2: true, blk2Only: true}
	}
	var objs1, objs2 []parser.K8sObject
	mkSide := func(side string, o zzC04Opt) []parser.K8sObject {
		if vf_Tier() == 0 { // quick: the two blocks are /24s, the single block /0 or /24
			book.menu = []int{0, 24}
			if o.blk2 {
				book.menu = []int{24}
			}
		}
		return zzC04SideX(side, book, false, false, o)
	}
	if vf_Choose("twoOn", 2) == 0 {
		objs1, objs2 = mkSide("s1", one), mkSide("s2", two)
	} else {
		objs1, objs2 = mkSide("s1", two), mkSide("s2", one)
	}
	zzC04Check(objs1, objs2, []string{zzA}, []bool{true})
}

// two workloads with the same name in different namespaces, ranges as sources (ingress policies)
func ZZ_C04_SameNameIngress() {
	book := &zzCidrBook{}
	if vf_Tier() == 0 {
		book.menu = []int{0, 24}
	} else {
		book.menu = []int{0, 8, 24, 32}
	}
	ing := vf_Choose("dir", 2) == 1
	o := zzC04Opt{nIP: 2, nPod: 1, ns2: true, ingress: ing}
	objs1 := zzC04SideX("s1", book, false, false, o)
	objs2 := zzC04SideX("s2", book, false, false, o)
	zzC04Check(objs1, objs2, []string{zzA, "ns2/a[Deployment]"}, []bool{!ing})
}

func zzC04Check(objs1, objs2 []parser.K8sObject, focuses []string, focusIsSrcs []bool) {
	conns1, peers1, err := connlist.ZZConnsFromObjects(connlist.NewConnlistAnalyzer(connlist.WithMuteErrsAndWarns()), objs1)
	vf_Assert(err == nil, "list-1")
	conns2, peers2, err := connlist.ZZConnsFromObjects(connlist.NewConnlistAnalyzer(connlist.WithMuteErrsAndWarns()), objs2)
	vf_Assert(err == nil, "list-2")
	da := NewDiffAnalyzer()
	d, err := da.computeDiffFromConnlistResults(conns1, conns2, peers1, peers2)
	vf_Assert(err == nil, "diff-computed")
	if err != nil {
		return
	}
	addr := vf_Uint32("addr")
	all := [][]SrcDstDiff{d.RemovedConnections(), d.AddedConnections(), d.ChangedConnections(), d.UnchangedConnections()}
	types := []DiffTypeStr{RemovedType, AddedType, ChangedType, UnchangedType}
	for _, focus := range focuses {
		for _, focusIsSrc := range focusIsSrcs {
			zzC04CheckIP(conns1, conns2, all, types, addr, focus, focusIsSrc)
		}
	}
	// workload pairs
	names1, names2 := map[string]bool{}, map[string]bool{}
	for _, p := range peers1 {
		if !p.IsPeerIPType() {
			names1[p.String()] = true
		}
	}
	for _, p := range peers2 {
		if !p.IsPeerIPType() {
			names2[p.String()] = true
		}
	}
	m1, m2 := map[string]string{}, map[string]string{}
	for _, c := range conns1 {
		if !c.Src().IsPeerIPType() && !c.Dst().IsPeerIPType() {
			m1[c.Src().String()+";"+c.Dst().String()] = connlist.GetConnectionSetFromP2PConnection(c).String()
		}
	}
	for _, c := range conns2 {
		if !c.Src().IsPeerIPType() && !c.Dst().IsPeerIPType() {
			m2[c.Src().String()+";"+c.Dst().String()] = connlist.GetConnectionSetFromP2PConnection(c).String()
		}
	}
	seen := map[string]bool{}
	for li, list := range all {
		for _, e := range list {
			if e.Src().IsPeerIPType() || e.Dst().IsPeerIPType() {
				continue
			}
			k := e.Src().String() + ";" + e.Dst().String()
			vf_Assert(!seen[k], "one-entry-per-workload-pair")
			seen[k] = true
			c1, ok1 := m1[k]
			c2, ok2 := m2[k]
			var want DiffTypeStr
			switch {
			case ok1 && ok2 && c1 == c2:
				want = UnchangedType
			case ok1 && ok2:
				want = ChangedType
			case ok1:
				want = RemovedType
			default:
				want = AddedType
			}
			vf_Assert(ok1 || ok2, "entry-has-a-source-report")
			vf_Assert(types[li] == want, "workload-entry-type")
			if ok1 {
				vf_Assert(zzConnText(e.Ref1Connectivity()) == c1, "workload-entry-ref1")
			}
			if ok2 {
				vf_Assert(zzConnText(e.Ref2Connectivity()) == c2, "workload-entry-ref2")
			}
			if want == AddedType {
				vf_Assert(e.IsSrcNewOrRemoved() == !names1[e.Src().String()] && e.IsDstNewOrRemoved() == !names1[e.Dst().String()], "new-workload-flags")
			}
			if want == RemovedType {
				vf_Assert(e.IsSrcNewOrRemoved() == !names2[e.Src().String()] && e.IsDstNewOrRemoved() == !names2[e.Dst().String()], "lost-workload-flags")
			}
		}
	}
	for k := range m1 {
		vf_Assert(seen[k], "every-pair-of-report-1-covered")
	}
	for k := range m2 {
		vf_Assert(seen[k], "every-pair-of-report-2-covered")
	}
	vf_Observe("n", len(all[0])+len(all[1])+len(all[2])+len(all[3]))
}

// diff(A,A) has no added / removed / changed entry
func ZZ_C04_DiffSelfIsEmpty() {
	book := &zzCidrBook{}
	objs := zzC04Side("s1", book, vf_Choose("withC", 2) == 1, false)
	conns1, peers1, err := connlist.ZZConnsFromObjects(connlist.NewConnlistAnalyzer(connlist.WithMuteErrsAndWarns()), objs)
	vf_Assert(err == nil, "list-1")
	conns2, peers2, err := connlist.ZZConnsFromObjects(connlist.NewConnlistAnalyzer(connlist.WithMuteErrsAndWarns()), objs)
	vf_Assert(err == nil, "list-2")
	d, err := NewDiffAnalyzer().computeDiffFromConnlistResults(conns1, conns2, peers1, peers2)
	vf_Assert(err == nil, "diff-computed")
	if err != nil {
		return
	}
	vf_Assert(len(d.AddedConnections()) == 0 && len(d.RemovedConnections()) == 0 && len(d.ChangedConnections()) == 0, "self-diff-empty")
	vf_Assert(d.IsEmpty(), "self-diff-isempty")
}
