package diff

import (
	corev1 "k8s.io/api/core/v1"
	netv1 "k8s.io/api/networking/v1"
	metav1 "k8s.io/apimachinery/pkg/apis/meta/v1"

	"github.com/np-guard/netpol-analyzer/pkg/manifests/parser"
	"github.com/np-guard/netpol-analyzer/pkg/netpol/connlist"
)

const zzA = "ns1/a[Deployment]"

// port shapes with concrete contents (the diff compares and keys connections by their text)
func zzC04Ports(k int) []netv1.NetworkPolicyPort {
	switch k {
	case 1:
		return []netv1.NetworkPolicyPort{zzPortNum(corev1.ProtocolTCP, 80)}
	case 2:
		return []netv1.NetworkPolicyPort{zzPortRange(corev1.ProtocolTCP, 80, 90), {Protocol: zzProtoPtr(corev1.ProtocolUDP)}}
	}
	return nil
}

// one side: workloads a, b (and c if withC; b absent if noB); a policy on a with egress to an ipBlock with
// symbolic network bits (optionally an except) and to app=b, with port shapes chosen per rule
func zzC04Side(side string, book *zzCidrBook, withC, noB bool) []parser.K8sObject {
	nIP, nPod, allowEx := 3, 3, true
	if vf_Tier() == 0 { // quick: prefix lengths {0,24}; fewer port shapes; an except on side 1 only
		book.menu = []int{0, 24}
		nIP = 1
		nPod = 1
		if side == "s2" {
			nIP = 2
			nPod = 2
			allowEx = false
		}
	}
	return zzC04SideX(side, book, withC, noB, nIP, nPod, allowEx)
}

func zzC04SideX(side string, book *zzCidrBook, withC, noB bool, nIP, nPod int, allowEx bool) []parser.K8sObject {
	objs := []parser.K8sObject{zzDeployObj("ns1", "a", map[string]string{"app": "a"}, nil)}
	if !noB {
		objs = append(objs, zzDeployObj("ns1", "b", map[string]string{"app": "b"}, nil))
	}
	if withC {
		objs = append(objs, zzDeployObj("ns1", "c", map[string]string{"app": "b"}, nil))
	}
	if vf_Choose(side+".policy", 2) == 0 {
		return objs // no policy: everything allowed
	}
	blk := &netv1.IPBlock{CIDR: book.New(side + ".cidr")}
	c := book.last()
	if allowEx && vf_Choose(side+".nex", 2) == 1 {
		ex := book.New(side + ".ex")
		vf_Assume(zzCidrInside(book.last(), c))
		blk.Except = []string{ex}
	}
	np := zzNetpolObj("ns1", "np1", netv1.NetworkPolicySpec{
		PodSelector: metav1.LabelSelector{MatchLabels: map[string]string{"app": "a"}},
		PolicyTypes: []netv1.PolicyType{netv1.PolicyTypeEgress},
		Egress: []netv1.NetworkPolicyEgressRule{
			{To: []netv1.NetworkPolicyPeer{{IPBlock: blk}}, Ports: zzC04Ports(vf_Choose(side+".ipports", nIP))},
			{To: []netv1.NetworkPolicyPeer{{PodSelector: zzSel("app", "b")}}, Ports: zzC04Ports(vf_Choose(side+".podports", nPod))},
		},
	})
	return append(objs, np)
}

type zzCell struct {
	in   bool   // the symbolic address lies in this entry's IP range
	conn string // canonical text of the entry's connection
}

// zzCellsFor: the entries of a report from workload a to IP ranges, as cells over the symbolic address
func zzCellsFor(conns []connlist.Peer2PeerConnection, addr uint32) []zzCell {
	var cells []zzCell
	for _, c := range conns {
		if c.Src().String() != zzA || !c.Dst().IsPeerIPType() {
			continue
		}
		r := c.Dst().String()
		lo, hi := vf_IPRangeLo(r), vf_IPRangeHi(r)
		cells = append(cells, zzCell{in: vf_And(lo <= addr, addr <= hi), conn: connlist.GetConnectionSetFromP2PConnection(c).String()})
	}
	return cells
}

func zzConnText(a AllowedConnectivity) string {
	return connlist.GetConnectionSetFromP2PConnection(connlist.NewPeer2PeerConnection(nil, nil, a.AllProtocolsAndPorts(), a.ProtocolsAndPorts())).String()
}

// C04: the diff is pointwise exact with respect to the two reports, for the pair (workload a, one symbolic
// external address) and for the workload pairs
func ZZ_C04_DiffPointwise() {
	book := &zzCidrBook{}
	wl := vf_Choose("workloads", 3) // 0 same, 1 side 2 has the new workload c, 2 side 2 lost b
	objs1 := zzC04Side("s1", book, false, false)
	objs2 := zzC04Side("s2", book, wl == 1, wl == 2)
	conns1, peers1, err := connlist.ZZConnsFromObjects(connlist.NewConnlistAnalyzer(connlist.WithMuteErrsAndWarns()), objs1)
	vf_Assert(err == nil, "list-1")
	conns2, peers2, err := connlist.ZZConnsFromObjects(connlist.NewConnlistAnalyzer(connlist.WithMuteErrsAndWarns()), objs2)
	vf_Assert(err == nil, "list-2")
	da := NewDiffAnalyzer()
	d, err := da.computeDiffFromConnlistResults(conns1, conns2, peers1, peers2)
	vf_Assert(err == nil, "diff-computed")
	if err != nil {
		return
	}
	addr := vf_Uint32("addr")
	cells1, cells2 := zzCellsFor(conns1, addr), zzCellsFor(conns2, addr)
	has1, has2 := false, false
	for _, c := range cells1 {
		has1 = vf_Or(has1, c.in)
	}
	for _, c := range cells2 {
		has2 = vf_Or(has2, c.in)
	}
	all := [][]SrcDstDiff{d.RemovedConnections(), d.AddedConnections(), d.ChangedConnections(), d.UnchangedConnections()}
	types := []DiffTypeStr{RemovedType, AddedType, ChangedType, UnchangedType}
	cnt := 0
	for li, list := range all {
		for _, e := range list {
			vf_Assert(e.DiffType() == types[li], "entry-in-the-list-of-its-type")
			if e.Src().String() != zzA || !e.Dst().IsPeerIPType() {
				continue
			}
			r := e.Dst().String()
			cov := vf_And(vf_IPRangeLo(r) <= addr, addr <= vf_IPRangeHi(r))
			cnt = cnt + vf_IteInt(cov, 1, 0)
			t1, t2 := zzConnText(e.Ref1Connectivity()), zzConnText(e.Ref2Connectivity())
			// the entry carries exactly c1 and c2 of the point and has the matching type
			ok := false
			for _, c1 := range cells1 {
				for _, c2 := range cells2 {
					want := ChangedType
					if c1.conn == c2.conn {
						want = UnchangedType
					}
					if e.DiffType() == want && t1 == c1.conn && t2 == c2.conn {
						ok = vf_Or(ok, vf_And(c1.in, c2.in))
					}
				}
				if e.DiffType() == RemovedType && t1 == c1.conn {
					ok = vf_Or(ok, vf_And(c1.in, vf_Not(has2)))
				}
			}
			for _, c2 := range cells2 {
				if e.DiffType() == AddedType && t2 == c2.conn {
					ok = vf_Or(ok, vf_And(c2.in, vf_Not(has1)))
				}
			}
			vf_Assert(vf_Implies(cov, ok), "ip-entry-carries-the-two-reports")
			vf_Assert(!e.IsSrcNewOrRemoved() && !e.IsDstNewOrRemoved(), "ip-entry-flags")
		}
	}
	vf_Assert(cnt == vf_IteInt(vf_Or(has1, has2), 1, 0), "exactly-one-covering-entry")
	// workload pairs
	names1, names2 := map[string]bool{}, map[string]bool{}
	for _, p := range peers1 {
		if !p.IsPeerIPType() {
			names1[p.String()] = true
		}
	}
	for _, p := range peers2 {
		if !p.IsPeerIPType() {
			names2[p.String()] = true
		}
	}
	m1, m2 := map[string]string{}, map[string]string{}
	for _, c := range conns1 {
		if !c.Src().IsPeerIPType() && !c.Dst().IsPeerIPType() {
			m1[c.Src().String()+";"+c.Dst().String()] = connlist.GetConnectionSetFromP2PConnection(c).String()
		}
	}
	for _, c := range conns2 {
		if !c.Src().IsPeerIPType() && !c.Dst().IsPeerIPType() {
			m2[c.Src().String()+";"+c.Dst().String()] = connlist.GetConnectionSetFromP2PConnection(c).String()
		}
	}
	seen := map[string]bool{}
	for li, list := range all {
		for _, e := range list {
			if e.Src().IsPeerIPType() || e.Dst().IsPeerIPType() {
				continue
			}
			k := e.Src().String() + ";" + e.Dst().String()
			vf_Assert(!seen[k], "one-entry-per-workload-pair")
			seen[k] = true
			c1, ok1 := m1[k]
			c2, ok2 := m2[k]
			var want DiffTypeStr
			switch {
			case ok1 && ok2 && c1 == c2:
				want = UnchangedType
			case ok1 && ok2:
				want = ChangedType
			case ok1:
				want = RemovedType
			default:
				want = AddedType
			}
			vf_Assert(ok1 || ok2, "entry-has-a-source-report")
			vf_Assert(types[li] == want, "workload-entry-type")
			if ok1 {
				vf_Assert(zzConnText(e.Ref1Connectivity()) == c1, "workload-entry-ref1")
			}
			if ok2 {
				vf_Assert(zzConnText(e.Ref2Connectivity()) == c2, "workload-entry-ref2")
			}
			if want == AddedType {
				vf_Assert(e.IsSrcNewOrRemoved() == !names1[e.Src().String()] && e.IsDstNewOrRemoved() == !names1[e.Dst().String()], "new-workload-flags")
			}
			if want == RemovedType {
				vf_Assert(e.IsSrcNewOrRemoved() == !names2[e.Src().String()] && e.IsDstNewOrRemoved() == !names2[e.Dst().String()], "lost-workload-flags")
			}
		}
	}
	for k := range m1 {
		vf_Assert(seen[k], "every-pair-of-report-1-covered")
	}
	for k := range m2 {
		vf_Assert(seen[k], "every-pair-of-report-2-covered")
	}
	vf_Observe("n", len(all[0])+len(all[1])+len(all[2])+len(all[3]))
}

// diff(A,A) has no added / removed / changed entry
func ZZ_C04_DiffSelfIsEmpty() {
	book := &zzCidrBook{}
	objs := zzC04Side("s1", book, vf_Choose("withC", 2) == 1, false)
	conns1, peers1, err := connlist.ZZConnsFromObjects(connlist.NewConnlistAnalyzer(connlist.WithMuteErrsAndWarns()), objs)
	vf_Assert(err == nil, "list-1")
	conns2, peers2, err := connlist.ZZConnsFromObjects(connlist.NewConnlistAnalyzer(connlist.WithMuteErrsAndWarns()), objs)
	vf_Assert(err == nil, "list-2")
	d, err := NewDiffAnalyzer().computeDiffFromConnlistResults(conns1, conns2, peers1, peers2)
	vf_Assert(err == nil, "diff-computed")
	if err != nil {
		return
	}
	vf_Assert(len(d.AddedConnections()) == 0 && len(d.RemovedConnections()) == 0 && len(d.ChangedConnections()) == 0, "self-diff-empty")
	vf_Assert(d.IsEmpty(), "self-diff-isempty")
}
