package common

import (
	"github.com/np-guard/models/pkg/interval"
)

// PortSet-level steps (C11): the per-protocol kernels of the connection-set algebra with BOTH operands holding several
// symbolic intervals and name states (the ConnectionSet-level harnesses keep the second operand at <=1 interval).

type zzPSGhost struct {
	ivs            []interval.Interval
	named, exclude map[string]bool
}

func zzPSSnap(p *PortSet) zzPSGhost {
	g := zzPSGhost{ivs: p.Ports.Intervals(), named: map[string]bool{}, exclude: map[string]bool{}}
	for k, v := range p.NamedPorts {
		g.named[k] = v
	}
	for k, v := range p.ExcludedNamedPorts {
		g.exclude[k] = v
	}
	return g
}

func zzPSGhostHas(g zzPSGhost, x int64) bool {
	r := false
	for _, iv := range g.ivs {
		r = vf_Or(r, vf_And(iv.Start() <= x, x <= iv.End()))
	}
	return r
}

func zzPSUnchanged(p *PortSet, g zzPSGhost) bool {
	ivs := p.Ports.Intervals()
	if len(ivs) != len(g.ivs) || !zzSameMap(p.NamedPorts, g.named) || !zzSameMap(p.ExcludedNamedPorts, g.exclude) {
		return false
	}
	r := true
	for i := range ivs {
		r = vf_And(r, ivs[i].Start() == g.ivs[i].Start(), ivs[i].End() == g.ivs[i].End())
	}
	return r
}

func zzPSShares(a, b *PortSet) bool {
	return a == b || a.Ports == b.Ports || vf_SameObject(a.NamedPorts, b.NamedPorts) || vf_SameObject(a.ExcludedNamedPorts, b.ExcludedNamedPorts) ||
		(len(a.Ports.Intervals()) > 0 && vf_SameObject(vf_GetField(a.Ports, "intervalSet"), vf_GetField(b.Ports, "intervalSet")))
}

// zzPSWitness: some point of ga that is outside gb, found among the finitely many candidate points (starts and ends of
// ga's intervals, the point after each end of gb's intervals)
func zzPSWitness(ga, gb zzPSGhost) bool {
	var cands []int64
	for _, iv := range ga.ivs {
		cands = append(cands, iv.Start(), iv.End())
	}
	for _, iv := range gb.ivs {
		cands = append(cands, iv.End()+1)
	}
	r := false
	for _, c := range cands {
		r = vf_Or(r, vf_And(zzPSGhostHas(ga, c), vf_Not(zzPSGhostHas(gb, c))))
	}
	return r
}

func zzPSGhostFull(g zzPSGhost) bool {
	if len(g.ivs) != 1 {
		return false
	}
	return vf_And(g.ivs[0].Start() == 1, g.ivs[0].End() == 65535)
}

func zzPSOperands(twoNames bool) (a, b *PortSet, ga, gb zzPSGhost, x int64) {
	n := 2 // in both tiers (three intervals in both operands is not a bound that was run to completion)
	a, b = zzAnyPortSet("a", n, twoNames), zzAnyPortSet("b", n, false)
	x = zzProbe()
	return a, b, zzPSSnap(a), zzPSSnap(b), x
}

func ZZ_C11_PortSetUnion() {
	a, b, ga, gb, x := zzPSOperands(false)
	a.Union(b)
	vf_Assert(zzPortSetInv(a), "ps-union-inv")
	vf_Assert(vf_Iff(zzCanonHas(a.Ports, x), vf_Or(zzPSGhostHas(ga, x), zzPSGhostHas(gb, x))), "ps-union-denotation")
	for _, name := range []string{zzHTTP, zzDNS} {
		vf_Assert(a.NamedPorts[name] == (ga.named[name] || gb.named[name]), "ps-union-names")
		wantEx := !a.NamedPorts[name] && (ga.exclude[name] || gb.exclude[name])
		vf_Assert(a.ExcludedNamedPorts[name] == wantEx, "ps-union-excluded-names")
	}
	vf_Assert(zzPSUnchanged(b, gb), "ps-union-operand-unchanged")
	vf_Assert(!zzPSShares(a, b), "ps-union-no-alias")
	vf_Observe("res", a.String())
}

func ZZ_C11_PortSetIntersection() {
	a, b, ga, gb, x := zzPSOperands(false)
	a.Intersection(b)
	vf_Assert(zzCanonInv(a.Ports, 1, 65535), "ps-intersection-inv")
	vf_Assert(vf_Iff(zzCanonHas(a.Ports, x), vf_And(zzPSGhostHas(ga, x), zzPSGhostHas(gb, x))), "ps-intersection-denotation")
	vf_Assert(zzPSUnchanged(b, gb), "ps-intersection-operand-unchanged")
	vf_Assert(!zzPSShares(a, b), "ps-intersection-no-alias")
	vf_Observe("res", a.Ports.String())
}

func ZZ_C11_PortSetSubtract() {
	a, b, ga, gb, x := zzPSOperands(false)
	a.subtract(b)
	vf_Assert(zzPortSetInv(a), "ps-subtract-inv")
	vf_Assert(vf_Iff(zzCanonHas(a.Ports, x), vf_And(zzPSGhostHas(ga, x), vf_Not(zzPSGhostHas(gb, x)))), "ps-subtract-denotation")
	for _, name := range []string{zzHTTP, zzDNS} {
		vf_Assert(a.NamedPorts[name] == (ga.named[name] && !gb.named[name]), "ps-subtract-names")
		if gb.named[name] {
			vf_Assert(a.ExcludedNamedPorts[name], "ps-subtract-excluded-names")
		}
	}
	vf_Assert(zzPSUnchanged(b, gb), "ps-subtract-operand-unchanged")
	vf_Assert(!zzPSShares(a, b), "ps-subtract-no-alias")
	vf_Observe("res", a.String())
}

func ZZ_C11_PortSetContainedInEqual() {
	a, b, ga, gb, x := zzPSOperands(true)
	res := a.ContainedIn(b)
	vf_Observe("contained", res)
	namesOK := true // every name of a is a name of b
	for name := range ga.named {
		if !gb.named[name] {
			namesOK = false
		}
	}
	if res {
		vf_Assert(vf_Implies(zzPSGhostHas(ga, x), zzPSGhostHas(gb, x)), "ps-containedin-sound")
		if !namesOK { // the sentence of the property: a name b lacks is covered only by b's full range
			vf_Assert(zzPSGhostFull(gb), "ps-containedin-named-port")
		}
	} else {
		w := zzPSWitness(ga, gb)
		if !namesOK {
			w = vf_Or(w, vf_Not(zzPSGhostFull(gb)))
		}
		vf_Assert(w, "ps-containedin-complete")
	}
	eq := a.Equal(b)
	vf_Observe("equal", eq)
	sameNames := zzSameMap(ga.named, gb.named) && zzSameMap(ga.exclude, gb.exclude)
	if eq {
		vf_Assert(sameNames, "ps-equal-names")
		vf_Assert(vf_Iff(zzPSGhostHas(ga, x), zzPSGhostHas(gb, x)), "ps-equal-sound")
		vf_Assert(a.String() == b.String(), "ps-equal-same-text")
	} else if sameNames {
		vf_Assert(vf_Or(zzPSWitness(ga, gb), zzPSWitness(gb, ga)), "ps-equal-complete")
	}
	vf_Assert(vf_Iff(a.IsAll(), vf_And(zzPSGhostFull(ga), len(ga.named) == 0 && len(ga.exclude) == 0)), "ps-isall")
	vf_Assert(vf_Iff(a.IsEmpty(), vf_And(len(ga.ivs) == 0, len(ga.named) == 0)), "ps-isempty")
	vf_Assert(vf_Iff(a.Contains(x), zzPSGhostHas(ga, x)), "ps-contains")
	c := a.Copy()
	vf_Assert(zzPSUnchanged(c, ga), "ps-copy-same")
	vf_Assert(!zzPSShares(c, a), "ps-copy-no-alias")
	vf_Assert(zzPSUnchanged(a, ga), "ps-readonly-receiver-unchanged")
	vf_Assert(zzPSUnchanged(b, gb), "ps-readonly-operand-unchanged")
}
