package common

import (
	"fmt"

	"github.com/np-guard/models/pkg/interval"
)

func ZZ_Dbg1() {
	a := interval.New(32771, 65535).ToSet()
	b := interval.New(32768, 32768).ToSet()
	u := a.Union(b)
	vf_Observe("u", u.String())
	vf_Observe("ivs", fmt.Sprint(len(u.Intervals())))
	vf_Assert(zzCanonInv(u, 1, 65535), "inv")
}
