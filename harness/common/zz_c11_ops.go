package common

import (
	v1 "k8s.io/api/core/v1"
	"k8s.io/apimachinery/pkg/util/intstr"
)

// C11 — one inductive step of every ConnectionSet operation from arbitrary valid states.

func zzNoExcluded(c *ConnectionSet) bool {
	for _, p := range c.AllowedProtocols {
		if len(p.ExcludedNamedPorts) > 0 {
			return false
		}
	}
	return true
}

func ZZ_C11_Union() {
	n := zzMaxIv()
	a, b := zzAnyConnSet("a", n), zzAnyConnSet("b", 1) // the second operand keeps <=1 interval in both tiers
	x := zzProbe()
	ga, gb := zzSnap(a), zzSnap(b)
	a.Union(b)
	vf_Assert(zzConnInv(a), "union-inv")
	for _, proto := range zzProtos {
		vf_Assert(vf_Iff(zzDen(a, proto, x), vf_Or(zzGhostDen(ga, proto, x), zzGhostDen(gb, proto, x))), "union-denotation")
	}
	vf_Assert(zzDenName(a, zzFocusProto(), zzHTTP) == (zzGhostName(ga, zzFocusProto(), zzHTTP) || zzGhostName(gb, zzFocusProto(), zzHTTP) || a.AllowAll),
		"union-named-ports")
	vf_Assert(zzUnchanged(b, gb), "union-operand-unchanged")
	vf_Assert(!zzShares(a, b), "union-no-alias")
	vf_Observe("result", a.String())
}

func ZZ_C11_Intersection() {
	n := zzMaxIv()
	a, b := zzAnyConnSet("a", n), zzAnyConnSet("b", 1) // the second operand keeps <=1 interval in both tiers
	x := zzProbe()
	ga, gb := zzSnap(a), zzSnap(b)
	a.Intersection(b)
	vf_Assert(zzConnInv(a), "intersection-inv")
	for _, proto := range zzProtos {
		vf_Assert(vf_Iff(zzDen(a, proto, x), vf_And(zzGhostDen(ga, proto, x), zzGhostDen(gb, proto, x))), "intersection-denotation")
	}
	if ga.all || gb.all { // the flows in which the tool intersects name-carrying sets
		vf_Assert(zzDenName(a, zzFocusProto(), zzHTTP) == (zzGhostName(ga, zzFocusProto(), zzHTTP) && zzGhostName(gb, zzFocusProto(), zzHTTP)),
			"intersection-named-ports")
	}
	vf_Assert(zzUnchanged(b, gb), "intersection-operand-unchanged")
	vf_Assert(!zzShares(a, b), "intersection-no-alias")
	vf_Assert(a.IsEmpty() == (!a.AllowAll && len(a.AllowedProtocols) == 0), "isempty")
	vf_Observe("result", a.String())
}

func ZZ_C11_Subtract() {
	n := zzMaxIv()
	a, b := zzAnyConnSet("a", n), zzAnyConnSet("b", 1) // the second operand keeps <=1 interval in both tiers
	x := zzProbe()
	ga, gb := zzSnap(a), zzSnap(b)
	a.Subtract(b)
	vf_Assert(zzConnInv(a), "subtract-inv")
	for _, proto := range zzProtos {
		vf_Assert(vf_Iff(zzDen(a, proto, x), vf_And(zzGhostDen(ga, proto, x), vf_Not(zzGhostDen(gb, proto, x)))), "subtract-denotation")
	}
	vf_Assert(zzUnchanged(b, gb), "subtract-operand-unchanged")
	vf_Assert(!zzShares(a, b), "subtract-no-alias")
	vf_Observe("result", a.String())
}

// witness points for "a is not a subset of b" on one protocol: starts/ends of a's intervals and
// the successors of b's interval ends
func zzSubsetWitness(a, b *ConnectionSet, proto v1.Protocol) bool {
	pa, ok := a.AllowedProtocols[proto]
	if !ok {
		return false
	}
	r := false
	var cands []int64
	for _, iv := range pa.Ports.Intervals() {
		cands = append(cands, iv.Start(), iv.End())
	}
	if pb, ok := b.AllowedProtocols[proto]; ok {
		for _, iv := range pb.Ports.Intervals() {
			cands = append(cands, iv.End()+1)
		}
	}
	for _, c := range cands {
		r = vf_Or(r, vf_And(c >= 1, c <= 65535, zzDen(a, proto, c), vf_Not(zzDen(b, proto, c))))
	}
	return r
}

func ZZ_C11_ContainedIn() {
	n := zzMaxIv()
	a, b := zzAnyConnSet("a", n), zzAnyConnSet("b", 1) // the second operand keeps <=1 interval in both tiers
	x := zzProbe()
	ga, gb := zzSnap(a), zzSnap(b)
	res := a.ContainedIn(b)
	vf_Observe("res", res)
	if res {
		for _, proto := range zzProtos {
			vf_Assert(vf_Implies(zzDen(a, proto, x), zzDen(b, proto, x)), "containedin-sound")
		}
		// the sentence of the property about named ports
		if pa, ok := a.AllowedProtocols[zzFocusProto()]; ok && pa.NamedPorts[zzHTTP] && !b.AllowAll {
			pb, okb := b.AllowedProtocols[zzFocusProto()]
			lacksName := !okb || !pb.NamedPorts[zzHTTP]
			if lacksName {
				full := okb
				var fullT bool
				if okb {
					fullT = zzCanonFull(pb.Ports)
				}
				vf_Assert(vf_And(full, fullT), "containedin-named-port")
			}
		}
	} else {
		// complete: some point of a is outside b
		w := false
		if a.AllowAll { // b is not AllowAll here: by Inv it lacks a point or carries names
			w = vf_Or(vf_Not(zzAllFull(b)), !zzNameFree(b))
		} else {
			for _, proto := range zzProtos {
				w = vf_Or(w, zzSubsetWitness(a, b, proto))
			}
			// a protocol present in a only through named ports and absent from b also makes it "not contained"
			// or holds a named port that b lacks while b does not hold the full range
			for proto, pa := range a.AllowedProtocols {
				pb, okb := b.AllowedProtocols[proto]
				for name := range pa.NamedPorts {
					if !okb {
						w = true
					} else if !pb.NamedPorts[name] {
						w = vf_Or(w, vf_Not(zzCanonFull(pb.Ports)))
					}
				}
			}
		}
		vf_Assert(w, "containedin-complete")
	}
	vf_Assert(zzUnchanged(a, ga), "containedin-receiver-unchanged")
	vf_Assert(zzUnchanged(b, gb), "containedin-operand-unchanged")
}

func ZZ_C11_EqualCopyString() {
	n := zzMaxIv()
	a, b := zzAnyConnSet("a", n), zzAnyConnSet("b", 1) // the second operand keeps <=1 interval in both tiers
	x := zzProbe()
	ga, gb := zzSnap(a), zzSnap(b)
	eq := a.Equal(b)
	vf_Observe("eq", eq)
	if eq {
		for _, proto := range zzProtos {
			vf_Assert(vf_Iff(zzDen(a, proto, x), zzDen(b, proto, x)), "equal-sound")
		}
		vf_Assert(zzDenName(a, zzFocusProto(), zzHTTP) == zzDenName(b, zzFocusProto(), zzHTTP), "equal-sound-names")
		vf_Assert(a.String() == b.String(), "equal-prints-identically")
		vf_Assert(b.Equal(a), "equal-symmetric")
	} else {
		// complete: they differ in a point, a name (incl. the excluded book-keeping) or the form
		d := false
		if ga.all != gb.all { // by Inv the other one lacks a point or carries names
			o := a
			if ga.all {
				o = b
			}
			d = vf_Or(vf_Not(zzAllFull(o)), !zzNameFree(o))
		}
		for _, proto := range zzProtos {
			d = vf_Or(d, zzSubsetWitness(a, b, proto), zzSubsetWitness(b, a, proto))
			pa, oka := a.AllowedProtocols[proto]
			pb, okb := b.AllowedProtocols[proto]
			if oka != okb {
				d = true
			} else if oka && (!zzSameMap(pa.NamedPorts, pb.NamedPorts) || !zzSameMap(pa.ExcludedNamedPorts, pb.ExcludedNamedPorts)) {
				d = true
			}
		}
		vf_Assert(d, "equal-complete")
	}
	c := a.Copy()
	vf_Assert(c.Equal(a), "copy-equal")
	vf_Assert(zzUnchanged(c, ga), "copy-same-structure")
	vf_Assert(!zzShares(c, a), "copy-no-alias")
	vf_Assert(a.String() == c.String(), "copy-prints-identically")
	vf_Assert(zzUnchanged(a, ga), "receiver-unchanged")
	vf_Assert(zzUnchanged(b, gb), "operand-unchanged")
	vf_Assert(a.IsEmpty() == (!a.AllowAll && len(a.AllowedProtocols) == 0), "isempty")
	vf_Assert(a.IsAllConnections() == a.AllowAll, "isall")
	vf_Observe("a", a.String())
}

// ZZ_C11_ContainsAndRenderers: membership through the string API and the two independent renderers
func ZZ_C11_ContainsAndRenderers() {
	n := zzMaxIv()
	a := zzAnyConnSet("a", n)
	x := zzProbe()
	for i, proto := range zzProtos {
		spell := []string{"TCP", "udp", "Sctp"}[i]
		vf_Assert(vf_Iff(a.Contains(vf_DecStr(x), spell), zzDen(a, proto, x)), "contains-denotation")
	}
	vf_Assert(!a.Contains("http", "TCP"), "contains-non-numeric")
	// name-free sets: ConnStrFromConnProperties(ProtocolsAndPortsMap) == String (list vs diff key)
	named := false
	for _, p := range a.AllowedProtocols {
		if len(p.NamedPorts) > 0 {
			named = true
		}
	}
	if !named {
		vf_Assert(ConnStrFromConnProperties(a.IsAllConnections(), a.ProtocolsAndPortsMap()) == a.String(), "renderers-agree")
	}
	vf_Observe("a", a.String())
}

// ZZ_C11_AddRemove: AddConnection / ReplaceNamedPortWithMatchingPortNum / GetNamedPorts
func ZZ_C11_AddConnection() {
	n := zzMaxIv()
	a := zzAnyConnSet("a", n)
	vf_Assume(!a.AllowAll)
	ps := zzAnyPortSet("p", n, false)
	x := zzProbe()
	ga := zzSnap(a)
	q := vf_Choose("q", 3)
	proto := zzProtos[q]
	psHas := zzCanonHas(ps.Ports, x)
	a.AddConnection(proto, ps)
	vf_Assert(zzConnInvNoCanon(a), "addconnection-inv")
	if zzNameFree(a) && !a.AllowAll {
		vf_Assert(vf_Not(zzAllFull(a)), "addconnection-all-recognised")
	}
	for i, pr := range zzProtos {
		want := zzGhostDen(ga, pr, x)
		if i == q {
			want = vf_Or(want, psHas)
		}
		vf_Assert(vf_Iff(zzDen(a, pr, x), want), "addconnection-denotation")
	}
	if p, ok := a.AllowedProtocols[proto]; ok {
		vf_Assert(p != ps && p.Ports != ps.Ports && !vf_SameObject(p.NamedPorts, ps.NamedPorts), "addconnection-no-alias")
	}
}

func ZZ_C11_ReplaceNamedPort() {
	n := zzMaxIv()
	a := zzAnyConnSet("a", n)
	vf_Assume(!a.AllowAll)
	fp := zzFocusProto()
	pt, ok := a.AllowedProtocols[fp]
	vf_Assume(ok && pt.NamedPorts[zzHTTP])
	x := zzProbe()
	ga := zzSnap(a)
	num := vf_Int32N("num", 17)
	vf_Assume(vf_And(num >= 1, num <= 65535))
	drop := vf_Choose("drop", 2) == 1
	np := a.GetNamedPorts()
	vf_Assert(len(np) == 1 && len(np[fp]) == 1 && np[fp][0] == zzHTTP, "getnamedports")
	if drop {
		a.ReplaceNamedPortWithMatchingPortNum(fp, zzHTTP, NoPort)
	} else {
		a.ReplaceNamedPortWithMatchingPortNum(fp, zzHTTP, num)
	}
	vf_Assert(zzPortSetInv(a.AllowedProtocols[fp]), "replace-portset-inv")
	vf_Assert(!zzDenName(a, fp, zzHTTP), "replace-removes-name")
	for _, pr := range zzProtos {
		want := zzGhostDen(ga, pr, x)
		if !drop && pr == fp {
			want = vf_Or(want, x == int64(num))
		}
		vf_Assert(vf_Iff(zzDen(a, pr, x), want), "replace-denotation")
	}
}

var _ = intstr.FromInt32
