package common

import (
	"fmt"

	"github.com/np-guard/models/pkg/interval"
)

// zzAnyCanon builds an arbitrary canonical interval set with exactly n intervals inside [1,65535].
func zzAnyCanon(name string, n int) *interval.CanonicalSet {
	ivs := make([]interval.Interval, n)
	prevEnd := int64(-1)
	for i := 0; i < n; i++ {
		s := vf_Int64N(fmt.Sprintf("%s.s%d", name, i), 17)
		e := vf_Int64N(fmt.Sprintf("%s.e%d", name, i), 17)
		vf_Assume(vf_And(s >= 1, e <= 65535, s <= e))
		if i > 0 {
			vf_Assume(s > prevEnd+1)
		}
		ivs[i] = interval.New(s, e)
		prevEnd = e
	}
	cs := interval.NewCanonicalSet()
	vf_SetField(cs, "intervalSet", ivs)
	return cs
}

// zzCanonHas: x in the set (pointwise denotation, branch-free)
func zzCanonHas(cs *interval.CanonicalSet, x int64) bool {
	r := false
	for _, iv := range cs.Intervals() {
		r = vf_Or(r, vf_And(iv.Start() <= x, x <= iv.End()))
	}
	return r
}

// zzCanonInv: sorted, disjoint, non-adjacent, non-empty intervals within [lo,hi]
func zzCanonInv(cs *interval.CanonicalSet, lo, hi int64) bool {
	r := true
	ivs := cs.Intervals()
	for i, iv := range ivs {
		r = vf_And(r, iv.Start() <= iv.End(), iv.Start() >= lo, iv.End() <= hi)
		if i > 0 {
			r = vf_And(r, iv.Start() > ivs[i-1].End()+1)
		}
	}
	return r
}

func ZZ_C11_Smoke_CanonUnion() {
	na, nb := vf_Choose("a.n", 3), vf_Choose("b.n", 3)
	a, b := zzAnyCanon("a", na), zzAnyCanon("b", nb)
	x := vf_Int64N("x", 17)
	vf_Assume(vf_And(x >= 1, x <= 65535))
	ina, inb := zzCanonHas(a, x), zzCanonHas(b, x)
	u := a.Union(b)
	vf_Assert(zzCanonInv(u, 1, 65535), "inv")
	vf_Assert(vf_Iff(zzCanonHas(u, x), vf_Or(ina, inb)), "denotation")
	vf_Observe("n", u.NumIntervals())
}
