package common

import (
	"fmt"

	v1 "k8s.io/api/core/v1"
	"k8s.io/apimachinery/pkg/util/intstr"

	"github.com/np-guard/models/pkg/interval"
)

// ---------------------------------------------------------------------------------------------
// generators of arbitrary valid states (pre-states are built directly, not through the API)

var zzProtos = []v1.Protocol{v1.ProtocolTCP, v1.ProtocolUDP, v1.ProtocolSCTP}

const zzHTTP = "http"
const zzDNS = "dns"

// zzAnyCanon builds an arbitrary canonical interval set with exactly n intervals inside [1,65535].
func zzAnyCanon(name string, n int) *interval.CanonicalSet {
	ivs := make([]interval.Interval, n)
	prevEnd := int64(-1)
	for i := 0; i < n; i++ {
		s := vf_Int64N(fmt.Sprintf("%s.s%d", name, i), 17)
		e := vf_Int64N(fmt.Sprintf("%s.e%d", name, i), 17)
		vf_Assume(vf_And(s >= 1, e <= 65535, s <= e))
		if i > 0 {
			vf_Assume(s > prevEnd+1)
		}
		ivs[i] = interval.New(s, e)
		prevEnd = e
	}
	cs := interval.NewCanonicalSet()
	vf_SetField(cs, "intervalSet", ivs)
	return cs
}

// zzNameState: 0 absent, 1 in NamedPorts, 2 in ExcludedNamedPorts
func zzSetName(p *PortSet, name string, st int) {
	switch st {
	case 1:
		p.NamedPorts[name] = true
	case 2:
		p.ExcludedNamedPorts[name] = true
	}
}

// zzAnyPortSet: arbitrary PortSet with <= maxIv intervals and the names http (and dns if two).
func zzAnyPortSet(name string, maxIv int, twoNames bool) *PortSet {
	n := vf_Choose(name+".n", maxIv+1)
	p := MakePortSet(false)
	p.Ports = zzAnyCanon(name, n)
	zzSetName(p, zzHTTP, vf_Choose(name+".http", 3))
	if twoNames {
		zzSetName(p, zzDNS, vf_Choose(name+".dns", 3))
	}
	return p
}

// zzAnyConnSet: arbitrary ConnectionSet satisfying Inv. The focus protocol holds <= maxIv symbolic
// intervals and may carry the name http; the other two protocols are absent, full [1,65535] or
// (thorough) a fixed partial range — the operations treat protocols independently except for the
// AllowAll form and the "all three full" canonicalisation, which these shapes exercise. The focus
// is itself a choice, so every protocol takes the rich role.
func zzAnyConnSet(name string, maxIv int) *ConnectionSet {
	focus := vf_Choose("focus", 3)
	if vf_Choose(name+".all", 2) == 1 {
		return MakeConnectionSet(true)
	}
	c := MakeConnectionSet(false)
	for i, proto := range zzProtos {
		pn := fmt.Sprintf("%s.%s", name, string(proto))
		if i != focus {
			k := 2
			if vf_Tier() > 1 {
				k = 3
			}
			switch vf_Choose(pn+".shape", k) {
			case 1:
				c.AllowedProtocols[proto] = MakePortSet(true)
			case 2:
				p := MakePortSet(false)
				p.Ports = interval.New(int64(1000+i), int64(2000+i)).ToSet()
				c.AllowedProtocols[proto] = p
			}
			continue
		}
		if vf_Choose(pn+".present", 2) == 0 {
			continue
		}
		p := MakePortSet(false)
		n := vf_Choose(pn+".n", maxIv+1)
		p.Ports = zzAnyCanon(pn, n)
		zzSetName(p, zzHTTP, vf_Choose(pn+".http", 3))
		if p.Ports.IsEmpty() && len(p.NamedPorts) == 0 {
			vf_Assume(false) // Inv: no protocol mapped to an empty port set
		}
		c.AllowedProtocols[proto] = p
	}
	if zzNameFree(c) {
		vf_Assume(vf_Not(zzAllFull(c))) // Inv: the full set is held in the AllowAll form
	}
	return c
}

// zzNameFree: no named and no excluded named ports anywhere
func zzNameFree(c *ConnectionSet) bool {
	for _, p := range c.AllowedProtocols {
		if len(p.NamedPorts) > 0 || len(p.ExcludedNamedPorts) > 0 {
			return false
		}
	}
	return true
}

func zzFocusProto() v1.Protocol { return zzProtos[vf_Choose("focus", 3)] }

// ---------------------------------------------------------------------------------------------
// oracle: pointwise denotations (branch-free over symbolic content)

func zzCanonHas(cs *interval.CanonicalSet, x int64) bool {
	r := false
	for _, iv := range cs.Intervals() {
		r = vf_Or(r, vf_And(iv.Start() <= x, x <= iv.End()))
	}
	return r
}

func zzCanonInv(cs *interval.CanonicalSet, lo, hi int64) bool {
	r := true
	ivs := cs.Intervals()
	for i, iv := range ivs {
		r = vf_And(r, iv.Start() <= iv.End(), iv.Start() >= lo, iv.End() <= hi)
		if i > 0 {
			r = vf_And(r, iv.Start() > ivs[i-1].End()+1)
		}
	}
	return r
}

func zzCanonFull(cs *interval.CanonicalSet) bool {
	ivs := cs.Intervals()
	if len(ivs) != 1 {
		return false
	}
	return vf_And(ivs[0].Start() == 1, ivs[0].End() == 65535)
}

func zzPortSetInv(p *PortSet) bool {
	if p == nil || p.Ports == nil || p.NamedPorts == nil || p.ExcludedNamedPorts == nil {
		return false
	}
	for k := range p.NamedPorts {
		if p.ExcludedNamedPorts[k] {
			return false
		}
	}
	return zzCanonInv(p.Ports, 1, 65535)
}

// zzDen: (proto, x) in the connection set
func zzDen(c *ConnectionSet, proto v1.Protocol, x int64) bool {
	if c.AllowAll {
		return true
	}
	p, ok := c.AllowedProtocols[proto]
	if !ok {
		return false
	}
	return zzCanonHas(p.Ports, x)
}

// zzDenName: the named port is allowed for proto
func zzDenName(c *ConnectionSet, proto v1.Protocol, name string) bool {
	if c.AllowAll {
		return true
	}
	p, ok := c.AllowedProtocols[proto]
	if !ok {
		return false
	}
	return p.NamedPorts[name]
}

func zzConnInv(c *ConnectionSet) bool {
	r := zzConnInvNoCanon(c)
	if r == false {
		return false
	}
	if !c.AllowAll && zzNameFree(c) {
		r = vf_And(r, vf_Not(zzAllFull(c))) // canonical: all protocols and ports is the AllowAll form
	}
	return r
}

func zzConnInvNoCanon(c *ConnectionSet) bool {
	if c.AllowedProtocols == nil {
		return false
	}
	if c.AllowAll {
		return len(c.AllowedProtocols) == 0
	}
	r := true
	for proto, p := range c.AllowedProtocols {
		if proto != v1.ProtocolTCP && proto != v1.ProtocolUDP && proto != v1.ProtocolSCTP {
			return false
		}
		if !zzPortSetInv(p) {
			return false
		}
		if p.Ports.IsEmpty() && len(p.NamedPorts) == 0 {
			return false
		}
		r = vf_And(r, zzCanonInv(p.Ports, 1, 65535))
	}
	return r
}

// zzAllFull: all three protocols present with exactly [1,65535]
func zzAllFull(c *ConnectionSet) bool {
	r := true
	for _, proto := range zzProtos {
		p, ok := c.AllowedProtocols[proto]
		if !ok {
			return false
		}
		r = vf_And(r, zzCanonFull(p.Ports))
	}
	return r
}

// ghost: a structural snapshot of a connection set (plain values)
type zzGhostPS struct {
	ivs            []interval.Interval
	named, exclude map[string]bool
}
type zzGhost struct {
	all bool
	ps  map[v1.Protocol]zzGhostPS
}

func zzSnap(c *ConnectionSet) zzGhost {
	g := zzGhost{all: c.AllowAll, ps: map[v1.Protocol]zzGhostPS{}}
	for proto, p := range c.AllowedProtocols {
		gp := zzGhostPS{ivs: p.Ports.Intervals(), named: map[string]bool{}, exclude: map[string]bool{}}
		for k, v := range p.NamedPorts {
			gp.named[k] = v
		}
		for k, v := range p.ExcludedNamedPorts {
			gp.exclude[k] = v
		}
		g.ps[proto] = gp
	}
	return g
}

func zzSameMap(a, b map[string]bool) bool {
	if len(a) != len(b) {
		return false
	}
	for k, v := range a {
		if w, ok := b[k]; !ok || w != v {
			return false
		}
	}
	return true
}

// zzUnchanged: c is structurally identical to its snapshot
func zzUnchanged(c *ConnectionSet, g zzGhost) bool {
	if c.AllowAll != g.all || len(c.AllowedProtocols) != len(g.ps) {
		return false
	}
	r := true
	for proto, gp := range g.ps {
		p, ok := c.AllowedProtocols[proto]
		if !ok {
			return false
		}
		ivs := p.Ports.Intervals()
		if len(ivs) != len(gp.ivs) || !zzSameMap(p.NamedPorts, gp.named) || !zzSameMap(p.ExcludedNamedPorts, gp.exclude) {
			return false
		}
		for i := range ivs {
			r = vf_And(r, ivs[i].Start() == gp.ivs[i].Start(), ivs[i].End() == gp.ivs[i].End())
		}
	}
	return r
}

func zzGhostDen(g zzGhost, proto v1.Protocol, x int64) bool {
	if g.all {
		return true
	}
	gp, ok := g.ps[proto]
	if !ok {
		return false
	}
	r := false
	for _, iv := range gp.ivs {
		r = vf_Or(r, vf_And(iv.Start() <= x, x <= iv.End()))
	}
	return r
}

func zzGhostName(g zzGhost, proto v1.Protocol, name string) bool {
	if g.all {
		return true
	}
	gp, ok := g.ps[proto]
	if !ok {
		return false
	}
	return gp.named[name]
}

// zzShares: the two sets share a map, a port set or an interval backing array
func zzShares(a, b *ConnectionSet) bool {
	if vf_SameObject(a.AllowedProtocols, b.AllowedProtocols) {
		return true
	}
	for _, pa := range a.AllowedProtocols {
		for _, pb := range b.AllowedProtocols {
			if pa == pb || pa.Ports == pb.Ports || vf_SameObject(pa.NamedPorts, pb.NamedPorts) ||
				vf_SameObject(pa.ExcludedNamedPorts, pb.ExcludedNamedPorts) {
				return true
			}
			if vf_SameObject(vf_GetField(pa.Ports, "intervalSet"), vf_GetField(pb.Ports, "intervalSet")) {
				return true
			}
		}
	}
	return false
}

func zzProbe() int64 {
	x := vf_Int64N("x", 17)
	vf_Assume(vf_And(x >= 1, x <= 65535))
	return x
}

func zzMaxIv() int {
	if vf_Tier() > 0 {
		return 2
	}
	return 1
}

func zzMaxIvPS() int {
	if vf_Tier() > 0 {
		return 3
	}
	return 2
}

var _ = intstr.FromInt32
