package vfpkg

// vf_* primitives: native bodies (replay / validation). Under symgo the calls are intercepted by name.
// The model is read from the file named by $VF_MODEL (JSON: {"name": uint64, ...}).

import (
	"encoding/json"
	"fmt"
	"os"
	"reflect"
	"sort"
	"strings"
	"unsafe"
)

type vfState struct {
	model    map[string]uint64
	fails    []string
	observed []string
	assumeViolated bool
	expectPanic bool
}

var vfS = &vfState{model: map[string]uint64{}}

// vfCleanup: undo what the previous run left behind (temporary directories)
var vfCleanup []func()

func vf_LoadModel(m map[string]uint64) {
	for _, f := range vfCleanup {
		f()
	}
	vfCleanup = nil
	vfS = &vfState{model: m}
}

func vf_LoadModelFile(path string) error {
	b, err := os.ReadFile(path)
	if err != nil {
		return err
	}
	m := map[string]uint64{}
	if err := json.Unmarshal(b, &m); err != nil {
		return err
	}
	vf_LoadModel(m)
	return nil
}

func vf_Report() (fails, observed []string, assumeViolated bool) {
	return vfS.fails, vfS.observed, vfS.assumeViolated
}

func vf_Bool(name string) bool     { return vfS.model[name] != 0 }
func vf_Int(name string) int       { return int(vfS.model[name]) }
func vf_Int32(name string) int32   { return int32(vfS.model[name]) }
func vf_Int64(name string) int64   { return int64(vfS.model[name]) }
func vf_Uint32(name string) uint32 { return uint32(vfS.model[name]) }
func vf_Uint16(name string) uint16 { return uint16(vfS.model[name]) }
func vf_Uint8(name string) uint8   { return uint8(vfS.model[name]) }
func vf_Int64N(name string, bits int) int64   { return int64(vfS.model[name]) }
func vf_Int32N(name string, bits int) int32   { return int32(vfS.model[name]) }
func vf_IntN(name string, bits int) int       { return int(vfS.model[name]) }
func vf_Uint32N(name string, bits int) uint32 { return uint32(vfS.model[name]) }
func vf_Uint32Split(name string, n int) uint32 {
	switch {
	case n <= 0:
		return uint32(vfS.model[name+".lo"])
	case n >= 32:
		return uint32(vfS.model[name+".hi"])
	}
	return uint32(vfS.model[name+".hi"])<<uint(32-n) | uint32(vfS.model[name+".lo"])
}
func vf_Choose(name string, n int) int {
	v := int(vfS.model["choose:"+name])
	if v >= n {
		v = 0
	}
	return v
}
func vf_DecStr(x int64) string { return fmt.Sprintf("%d", x) }
func vf_IPStr(a uint32) string {
	return fmt.Sprintf("%d.%d.%d.%d", byte(a>>24), byte(a>>16), byte(a>>8), byte(a))
}
func vf_CidrStr(a uint32, n int) string { return fmt.Sprintf("%s/%d", vf_IPStr(a), n) }

type vfStop struct{}

func vf_Assume(c bool) {
	if !c {
		vfS.assumeViolated = true
		panic(vfStop{})
	}
}
func vf_Assert(c bool, label string) {
	if !c {
		vfS.fails = append(vfS.fails, label)
		panic(vfStop{})
	}
}
func vf_And(a ...bool) bool {
	for _, x := range a {
		if !x {
			return false
		}
	}
	return true
}
func vf_Or(a ...bool) bool {
	for _, x := range a {
		if x {
			return true
		}
	}
	return false
}
func vf_Not(a bool) bool        { return !a }
func vf_Implies(a, b bool) bool { return !a || b }
func vf_Iff(a, b bool) bool     { return a == b }
func vf_Ite64(c bool, a, b int64) int64 {
	if c {
		return a
	}
	return b
}
func vf_IteInt(c bool, a, b int) int {
	if c {
		return a
	}
	return b
}
func vf_IteBool(c bool, a, b bool) bool {
	if c {
		return a
	}
	return b
}
func vf_Observe(label string, v any) {
	vfS.observed = append(vfS.observed, label+"="+fmt.Sprint(v))
}
func vf_Known(id string, c bool)   {}
func vf_SameObject(a, b any) bool  { return vfSame(a, b) }
func vfParseIP4(p string) uint32 {
	var a, b, c, d uint32
	fmt.Sscanf(p, "%d.%d.%d.%d", &a, &b, &c, &d)
	return a<<24 | b<<16 | c<<8 | d
}
func vf_IPRangeLo(s string) uint32 { return vfParseIP4(strings.Split(s, "-")[0]) }
func vf_IPRangeHi(s string) uint32 {
	parts := strings.Split(s, "-")
	return vfParseIP4(parts[len(parts)-1])
}
func vf_SameString(a, b string) bool { return a == b }
func vf_ExpectPanic()              { vfS.expectPanic = true }
func vf_Stop()                     { panic(vfStop{}) }
func vf_Cover(label string)        {}
func vf_Symbolic() bool            { return false }
func vf_Tier() int                 { return int(vfS.model["__tier"]) }
func vf_Printed() int              { return 0 }

// vf_CaptureStdout: the text f writes to standard output
func vf_CaptureStdout(f func()) string {
	old := os.Stdout
	r, w, err := os.Pipe()
	if err != nil {
		panic(err)
	}
	os.Stdout = w
	done := make(chan string)
	go func() {
		var sb strings.Builder
		buf := make([]byte, 4096)
		for {
			n, err := r.Read(buf)
			sb.Write(buf[:n])
			if err != nil {
				break
			}
		}
		done <- sb.String()
	}()
	func() {
		defer func() {
			os.Stdout = old
			w.Close()
		}()
		f()
	}()
	out := <-done
	r.Close()
	return out
}

// vf_Schedule: natively a no-op (the Go runtime randomises map iteration by itself)
func vf_Schedule(on bool) {}
func vf_NoPanic(f func(), label string) {
	defer func() {
		if r := recover(); r != nil {
			if _, ok := r.(vfStop); ok {
				panic(r)
			}
			vfS.fails = append(vfS.fails, label)
			vfS.observed = append(vfS.observed, "panic="+fmt.Sprint(r))
			panic(vfStop{})
		}
	}()
	f()
}

// vf_RunNative runs one harness natively under a model and reports what happened.
func vf_RunNative(h func(), model map[string]uint64) (status string, fails, observed []string) {
	vf_LoadModel(model)
	status = "ok"
	func() {
		defer func() {
			if r := recover(); r != nil {
				if _, ok := r.(vfStop); ok {
					return
				}
				status = "panic"
				vfS.observed = append(vfS.observed, "panic="+strings.SplitN(fmt.Sprint(r), "\n", 2)[0])
			}
		}()
		h()
	}()
	if vfS.assumeViolated {
		status = "assume-violated"
	}
	return status, vfS.fails, vfS.observed
}

func vfSortedKeys(m map[string]bool) []string {
	var ks []string
	for k := range m {
		ks = append(ks, k)
	}
	sort.Strings(ks)
	return ks
}

func vfSame(a, b any) bool {
	va, vb := reflect.ValueOf(a), reflect.ValueOf(b)
	if !va.IsValid() || !vb.IsValid() || va.Kind() != vb.Kind() {
		return false
	}
	switch va.Kind() {
	case reflect.Map, reflect.Pointer:
		return !va.IsNil() && va.Pointer() == vb.Pointer()
	case reflect.Slice:
		if va.Cap() == 0 || vb.Cap() == 0 {
			return false
		}
		pa := va.Slice(0, va.Cap()).Index(va.Cap() - 1).Addr().Pointer()
		pb := vb.Slice(0, vb.Cap()).Index(vb.Cap() - 1).Addr().Pointer()
		return pa == pb
	}
	return false
}

// vf_SetField sets the (possibly unexported) field of the struct ptr points to.
func vf_SetField(ptr any, field string, val any) {
	v := reflect.ValueOf(ptr).Elem()
	f := v.FieldByName(field)
	reflect.NewAt(f.Type(), unsafe.Pointer(f.UnsafeAddr())).Elem().Set(reflect.ValueOf(val))
}

// vf_GetField reads the (possibly unexported) field of the struct ptr points to.
func vf_GetField(ptr any, field string) any {
	v := reflect.ValueOf(ptr).Elem()
	f := v.FieldByName(field)
	return reflect.NewAt(f.Type(), unsafe.Pointer(f.UnsafeAddr())).Elem().Interface()
}

// ---- vf_Any: native reconstruction of a lazily materialised object from the model -----------------

func vfCleanPaths() []string {
	var ps []string
	for k := range vfS.model {
		k = strings.TrimPrefix(k, "choose:")
		if i := strings.LastIndex(k, "#"); i >= 0 {
			k = k[:i]
		}
		ps = append(ps, k)
	}
	return ps
}

func vfPoolFor(pools map[string][]string, path string) []string {
	field := path
	if i := strings.LastIndex(path, "."); i >= 0 {
		field = path[i+1:]
	}
	field = strings.TrimRight(field, "*")
	if i := strings.Index(field, "["); i >= 0 {
		field = field[:i]
	}
	if p, ok := pools[field]; ok {
		return p
	}
	if p, ok := pools["*"]; ok {
		return p
	}
	return []string{"", "a"}
}

func vf_Any(name string, ptr any, pools map[string][]string) {
	paths := vfCleanPaths()
	has := func(p string) bool {
		for _, q := range paths {
			if strings.HasPrefix(q, p) {
				return true
			}
		}
		return false
	}
	var fill func(v reflect.Value, path string, depth int)
	fill = func(v reflect.Value, path string, depth int) {
		if depth > 40 || !has(path) || !v.CanSet() {
			return
		}
		switch v.Kind() {
		case reflect.Struct:
			for i := 0; i < v.NumField(); i++ {
				fill(v.Field(i), path+"."+v.Type().Field(i).Name, depth+1)
			}
		case reflect.Array:
			for i := 0; i < v.Len(); i++ {
				fill(v.Index(i), fmt.Sprintf("%s[%d]", path, i), depth+1)
			}
		case reflect.Pointer:
			if k, ok := vfS.model["choose:"+path+"#nil"]; ok && k == 0 {
				v.Set(reflect.New(v.Type().Elem()))
				fill(v.Elem(), path+"*", depth+1)
			}
		case reflect.Slice:
			k, ok := vfS.model["choose:"+path+"#len"]
			if !ok || k == 0 {
				return
			}
			n := int(k) - 1
			v.Set(reflect.MakeSlice(v.Type(), n, n))
			for i := 0; i < n; i++ {
				fill(v.Index(i), fmt.Sprintf("%s[%d]", path, i), depth+1)
			}
		case reflect.Map:
			k, ok := vfS.model["choose:"+path+"#map"]
			if !ok || k == 0 {
				return
			}
			v.Set(reflect.MakeMap(v.Type()))
			if k == 2 && v.Type().Key().Kind() == reflect.String {
				keys := vfPoolFor(pools, path+"#key")
				key := keys[int(vfS.model["choose:"+path+"#k"])%len(keys)]
				ev := reflect.New(v.Type().Elem()).Elem()
				fill(ev, path+"["+key+"]", depth+1)
				v.SetMapIndex(reflect.ValueOf(key).Convert(v.Type().Key()), ev)
			}
		case reflect.String:
			if idx, ok := vfS.model["choose:"+path+"#s"]; ok {
				pool := vfPoolFor(pools, path)
				v.SetString(pool[int(idx)%len(pool)])
			}
		case reflect.Bool:
			v.SetBool(vfS.model[path] != 0)
		case reflect.Int, reflect.Int8, reflect.Int16, reflect.Int32, reflect.Int64:
			v.SetInt(int64(vfS.model[path]))
		case reflect.Uint, reflect.Uint8, reflect.Uint16, reflect.Uint32, reflect.Uint64, reflect.Uintptr:
			v.SetUint(vfS.model[path])
		}
	}
	fill(reflect.ValueOf(ptr).Elem(), name, 0)
}
