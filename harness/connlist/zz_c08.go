package connlist

import (
	corev1 "k8s.io/api/core/v1"
	netv1 "k8s.io/api/networking/v1"
	metav1 "k8s.io/apimachinery/pkg/apis/meta/v1"
	apisv1a "sigs.k8s.io/network-policy-api/apis/v1alpha1"

	"github.com/np-guard/netpol-analyzer/pkg/manifests/parser"
)

// C08: the rendered report is the same for every map-iteration order and every order of the documents.
//
// Run 1 (reference): documents in generation order, every map iterated in insertion order.
// Run 2: documents permuted, rule peers / port entries permuted, and every `range` over a map inside the
// analyzer and the formatter free to start anywhere / run backwards (engine flag -mapsched K: at most K
// deviating sites per path, explored exhaustively). The two texts are compared by the solver (they contain the
// symbolic ports as decimal tokens).

// zzC08FreeData: leave the relative order of the symbolic ports open (C09 uses the same world for its data)
var zzC08FreeData bool

func zzC08Formats() []string {
	// csv (encoding/csv over a bufio byte buffer) and json (reflection) cannot carry symbolic text: outside the check
	return []string{"txt", "md", "dot"}
}

// zzC08World: three workloads, two policies whose rules hold several peers and several port entries (so that
// permutations exist), optionally an ANP pair with equal structure and different priorities.
func zzC08World() (g *zzGen, permuted []parser.K8sObject) {
	g = zzBaseWorld(true, true)
	g.ConcreteIP = true
	p, e := zzPortVar("p"), zzPortVar("e")
	vf_Assume(p < e)
	q := zzPortVar("q")
	if !zzC08FreeData {
		// one relative order of the symbolic ports (the schedule, not the data, is what this check explores)
		hp := g.pod("ns1", "a").Ports[0].ContainerPort
		vf_Assume(vf_And(p > 1, p+1 < e, e+1 < q, q+1 < hp, hp < 8000))
	}
	peersA := []netv1.NetworkPolicyPeer{
		{PodSelector: zzSel("app", "b")},
		{NamespaceSelector: zzSel(zzNsNameLabel, "ns2")},
		{IPBlock: &netv1.IPBlock{CIDR: "10.0.0.0/8", Except: []string{"10.1.0.0/16"}}},
	}
	portsA := []netv1.NetworkPolicyPort{zzPortRange(corev1.ProtocolTCP, p, e), zzPortNum(corev1.ProtocolUDP, q)}
	peersB := []netv1.NetworkPolicyPeer{
		{NamespaceSelector: zzSel("env", "prod")},
		{IPBlock: &netv1.IPBlock{CIDR: "10.1.0.0/16"}},
	}
	if zzC08FreeData {
		// C09 only: selectors whose text the formats must spell out — a namespace selector made of the name label AND an
		// expression (not the bare namespace name), a pod selector with a label and an expression with two values
		peersB = append(peersB, netv1.NetworkPolicyPeer{
			NamespaceSelector: &metav1.LabelSelector{MatchLabels: map[string]string{zzNsNameLabel: "ns3"},
				MatchExpressions: []metav1.LabelSelectorRequirement{{Key: "tier", Operator: metav1.LabelSelectorOpNotIn, Values: []string{"restricted"}}}},
			PodSelector: &metav1.LabelSelector{MatchLabels: map[string]string{"role": "db", "app": "q"},
				MatchExpressions: []metav1.LabelSelectorRequirement{{Key: "zone", Operator: metav1.LabelSelectorOpIn, Values: []string{"z1", "z2"}}, {Key: "beta", Operator: metav1.LabelSelectorOpDoesNotExist}}}})
	}
	portsB := []netv1.NetworkPolicyPort{zzPortNum(corev1.ProtocolTCP, q), zzPortName(corev1.ProtocolTCP, "http")}
	mk := func(pa, pb []netv1.NetworkPolicyPeer, qa, qb []netv1.NetworkPolicyPort, swapRules bool) []parser.K8sObject {
		np1 := zzNetpolObj("ns1", "np1", netv1.NetworkPolicySpec{PodSelector: metav1.LabelSelector{MatchLabels: map[string]string{"app": "a"}}}).NetworkPolicy
		r1 := netv1.NetworkPolicyIngressRule{From: pa, Ports: qa}
		r2 := netv1.NetworkPolicyIngressRule{From: pb, Ports: qb}
		if swapRules {
			r1, r2 = r2, r1
		}
		np1.Spec.Ingress = []netv1.NetworkPolicyIngressRule{r1, r2}
		np1.Spec.Egress = []netv1.NetworkPolicyEgressRule{{To: pa, Ports: portsA[:1]}}
		np1.Spec.PolicyTypes = []netv1.PolicyType{netv1.PolicyTypeIngress, netv1.PolicyTypeEgress}
		np2 := zzNetpolObj("ns2", "np2", netv1.NetworkPolicySpec{}).NetworkPolicy
		np2.Spec.Egress = []netv1.NetworkPolicyEgressRule{{To: pb, Ports: qa}}
		np2.Spec.PolicyTypes = []netv1.PolicyType{netv1.PolicyTypeEgress}
		return []parser.K8sObject{
			{Kind: parser.NetworkPolicy, NetworkPolicy: np1},
			{Kind: parser.NetworkPolicy, NetworkPolicy: np2},
		}
	}
	rev := func(ps []netv1.NetworkPolicyPeer) []netv1.NetworkPolicyPeer {
		out := make([]netv1.NetworkPolicyPeer, len(ps))
		for i := range ps {
			out[len(ps)-1-i] = ps[i]
		}
		return out
	}
	revP := func(ps []netv1.NetworkPolicyPort) []netv1.NetworkPolicyPort {
		out := make([]netv1.NetworkPolicyPort, len(ps))
		for i := range ps {
			out[len(ps)-1-i] = ps[i]
		}
		return out
	}
	base := append([]parser.K8sObject{}, g.Objs...)
	var adm []parser.K8sObject
	extra := vf_Choose("extra", 4) // 0 nothing more, 1 admin policies, 2 services + ingress objects, 3 two more policies on app=a
	switch extra {
	case 2:
		// Services and Ingress objects in ns1 and ns2, and an Ingress in a namespace without any Service
		mkSvc := func(ns, name string, port int32) parser.K8sObject {
			return parser.K8sObject{Kind: parser.Service, Service: &corev1.Service{
				TypeMeta: metav1.TypeMeta{Kind: "Service", APIVersion: "v1"}, ObjectMeta: metav1.ObjectMeta{Name: name, Namespace: ns},
				Spec: corev1.ServiceSpec{Selector: map[string]string{"app": "w"}, Ports: []corev1.ServicePort{{Name: "web", Port: port}}}}}
		}
		mkIng := func(ns, name, svc string, port int32) parser.K8sObject {
			return parser.K8sObject{Kind: parser.Ingress, Ingress: &netv1.Ingress{
				TypeMeta: metav1.TypeMeta{Kind: "Ingress", APIVersion: "networking.k8s.io/v1"}, ObjectMeta: metav1.ObjectMeta{Name: name, Namespace: ns},
				Spec: netv1.IngressSpec{DefaultBackend: &netv1.IngressBackend{Service: &netv1.IngressServiceBackend{Name: svc, Port: netv1.ServiceBackendPort{Number: port}}}}}}
		}
		wports := []corev1.ContainerPort{{Name: "web", ContainerPort: 8080, Protocol: corev1.ProtocolTCP}}
		adm = []parser.K8sObject{
			mkIng("ns0", "ing0", "nosvc", 80),
			zzDeployObj("ns1", "w1", map[string]string{"app": "w"}, wports), mkSvc("ns1", "svc1", 8080), mkIng("ns1", "ing1", "svc1", 8080),
			zzDeployObj("ns2", "w2", map[string]string{"app": "w"}, wports), mkSvc("ns2", "svc2", 8080), mkIng("ns2", "ing2", "svc2", 8080),
			mkIng("ns9", "ing9", "nosvc", 80),
		}
	case 3:
		// two more policies selecting app=a in ns1: one opens everything from any address, the other a port from the whole cluster
		np3 := zzNetpolObj("ns1", "np3", netv1.NetworkPolicySpec{PodSelector: metav1.LabelSelector{MatchLabels: map[string]string{"app": "a"}},
			Ingress:     []netv1.NetworkPolicyIngressRule{{From: []netv1.NetworkPolicyPeer{{IPBlock: &netv1.IPBlock{CIDR: "0.0.0.0/0"}}}}},
			Egress:      []netv1.NetworkPolicyEgressRule{{To: []netv1.NetworkPolicyPeer{{IPBlock: &netv1.IPBlock{CIDR: "0.0.0.0/0"}}}}},
			PolicyTypes: []netv1.PolicyType{netv1.PolicyTypeIngress, netv1.PolicyTypeEgress}})
		np4 := zzNetpolObj("ns1", "np4", netv1.NetworkPolicySpec{PodSelector: metav1.LabelSelector{},
			Ingress:     []netv1.NetworkPolicyIngressRule{{From: []netv1.NetworkPolicyPeer{{NamespaceSelector: &metav1.LabelSelector{}}}, Ports: []netv1.NetworkPolicyPort{zzPortNum(corev1.ProtocolTCP, q)}}},
			Egress:      []netv1.NetworkPolicyEgressRule{{To: []netv1.NetworkPolicyPeer{{NamespaceSelector: &metav1.LabelSelector{}}}, Ports: []netv1.NetworkPolicyPort{zzPortNum(corev1.ProtocolTCP, q)}}},
			PolicyTypes: []netv1.PolicyType{netv1.PolicyTypeIngress, netv1.PolicyTypeEgress}})
		adm = []parser.K8sObject{np3, np4}
	}
	if extra == 1 {
		// two ANPs with distinct priorities on the same subject (order of evaluation is by priority, not by position)
		r := int32(8080)
		mkANP := func(name string, prio int32, act apisv1a.AdminNetworkPolicyRuleAction) parser.K8sObject {
			anp := &apisv1a.AdminNetworkPolicy{
				TypeMeta:   metav1.TypeMeta{Kind: "AdminNetworkPolicy", APIVersion: "policy.networking.k8s.io/v1alpha1"},
				ObjectMeta: metav1.ObjectMeta{Name: name},
				Spec: apisv1a.AdminNetworkPolicySpec{
					Priority: prio,
					Subject:  apisv1a.AdminNetworkPolicySubject{Namespaces: &metav1.LabelSelector{}},
					Ingress: []apisv1a.AdminNetworkPolicyIngressRule{{
						Action: act,
						From:   []apisv1a.AdminNetworkPolicyIngressPeer{{Namespaces: &metav1.LabelSelector{}}},
						Ports:  &[]apisv1a.AdminNetworkPolicyPort{{PortNumber: &apisv1a.Port{Protocol: corev1.ProtocolTCP, Port: r}}},
					}},
				},
			}
			return parser.K8sObject{Kind: parser.AdminNetworkPolicy, AdminNetworkPolicy: anp}
		}
		adm = []parser.K8sObject{mkANP("anp-x", 5, apisv1a.AdminNetworkPolicyRuleActionDeny), mkANP("anp-y", 3, apisv1a.AdminNetworkPolicyRuleActionAllow)}
	}
	ref := append(append(append([]parser.K8sObject{}, base...), mk(peersA, peersB, portsA, portsB, false)...), adm...)
	g.Objs = ref
	// the permuted spelling of the same resources
	var other []parser.K8sObject
	perm := vf_Choose("perm", 3) + 1 // 0 (same documents, only the schedule differs) is subsumed by the others
	switch perm {
	case 0: // same documents, same order: only the map schedule differs
		other = ref
	case 1: // documents reversed
		for i := len(ref) - 1; i >= 0; i-- {
			other = append(other, ref[i])
		}
	case 2: // policies first, peers / ports / rules inside them reversed
		other = append(append(append([]parser.K8sObject{}, mk(rev(peersA), rev(peersB), revP(portsA), revP(portsB), true)...), adm...), base...)
	default: // rotated by half, admin policies swapped
		all := append(append([]parser.K8sObject{}, base...), mk(rev(peersA), peersB, portsA, revP(portsB), false)...)
		for i := len(adm) - 1; i >= 0; i-- {
			all = append(all, adm[i])
		}
		h := len(all) / 2
		other = append(append([]parser.K8sObject{}, all[h:]...), all[:h]...)
	}
	return g, other
}

// zzC08Render: one analysis, then the report in every format of the list
func zzC08Render(objs []parser.K8sObject, formats []string, exposure bool) ([]string, bool) {
	opts := []ConnlistAnalyzerOption{WithMuteErrsAndWarns()}
	if exposure {
		opts = append(opts, WithExposureAnalysis())
	}
	ca := NewConnlistAnalyzer(opts...)
	conns, _, err := ca.connsListFromParsedResources(objs)
	if err != nil {
		return nil, false
	}
	var outs []string
	for _, f := range formats {
		ca.outputFormat = f
		out, err := ca.ConnectionsListToString(conns)
		if err != nil {
			return nil, false
		}
		outs = append(outs, out)
	}
	return outs, true
}

func zzC08(formats []string, exposure bool) {
	g, other := zzC08World()
	vf_Schedule(false)
	o1, ok1 := zzC08Render(g.Objs, formats, exposure)
	vf_Schedule(true)
	o2, ok2 := zzC08Render(other, formats, exposure)
	vf_Schedule(false)
	vf_Assert(ok1 == ok2, "same-outcome-in-every-order")
	if ok1 && ok2 {
		for i := range formats {
			vf_Assert(o1[i] == o2[i], "same-text-in-every-order-"+formats[i])
		}
	}
}

// the list report in the txt, md and dot formats
func ZZ_C08_List() { zzC08(zzC08Formats(), false) }

// the same with exposure analysis
func ZZ_C08_Exposure() { zzC08(zzC08Formats(), true) }
