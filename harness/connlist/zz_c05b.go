package connlist

import (
	corev1 "k8s.io/api/core/v1"
	netv1 "k8s.io/api/networking/v1"
	metav1 "k8s.io/apimachinery/pkg/apis/meta/v1"

	"github.com/np-guard/netpol-analyzer/pkg/netpol/connlist/internal/ingressanalyzer"
	"github.com/np-guard/netpol-analyzer/pkg/netpol/eval"
	"github.com/np-guard/netpol-analyzer/pkg/netpol/internal/common"
)

// C05(b) + the list-level part of C01: the returned relation is well formed and is exactly the
// per-pair answers of the engine (one entry per ordered pair with a non-empty set, nothing else).
func ZZ_C05_RelationShape() {
	g := zzBaseWorld(true, vf_Choose("nsObjs", 2) == 1)
	g.ConcreteIP = true
	variant := vf_Choose("variant", 4)
	switch variant {
	case 0: // one NetworkPolicy from the (reduced) menus
		g.addNP(g.zzGenNPx("np1", "ns1", vf_Tier() > 0, vf_Tier() == 0))
	case 1: // two policies from reduced menus
		g.addNP(g.zzGenNPx("np1", "ns1", false, true))
		g.addNP(g.zzGenNPTiny("np2", "ns1"))
	case 3: // two policies on pod a, each allowing UDP, SCTP and a symbolic TCP range from everybody: their union may complete
		// the whole space by widening a protocol both already hold (then it must be reported as All Connections)
		for _, name := range []string{"npx", "npy"} {
			p, e := zzPortVar(name+".p"), zzPortVar(name+".e")
			vf_Assume(p <= e)
			g.addNP(zzNetpolObj("ns1", name, netv1.NetworkPolicySpec{
				PodSelector: metav1.LabelSelector{MatchLabels: map[string]string{"app": "a"}},
				Ingress: []netv1.NetworkPolicyIngressRule{{Ports: []netv1.NetworkPolicyPort{zzPortRange(corev1.ProtocolTCP, p, e),
					{Protocol: zzProtoPtr(corev1.ProtocolUDP)}, {Protocol: zzProtoPtr(corev1.ProtocolSCTP)}}}},
			}).NetworkPolicy)
		}
	default: // admin policies
		ing := vf_Choose("dir", 2) == 0
		p1 := vf_Int32N("prio.a", 10)
		vf_Assume(p1 <= 1000)
		nRules := 1 // quick: one ANP rule and the BANP, every action, ports all / UDP n + TCP m / TCP range (symbolic)
		if vf_Tier() > 0 {
			nRules = 1 + vf_Choose("anp0.nrules", 2)
		}
		g.addANP(g.zzGenANPx("anp0", p1, ing, nRules, 1+vf_Tier(), 1+vf_Tier(), 3))
		if vf_Choose("banp", 2) == 1 {
			g.addBANP(g.zzGenBANPx(ing, 1, 1, 1, 3))
		}
	}
	x := zzProbeX()
	pe, err := eval.NewPolicyEngineWithObjects(g.Objs)
	vf_Assert(err == nil, "engine-built")
	ca := NewConnlistAnalyzer(WithMuteErrsAndWarns())
	ia, err := ingressanalyzer.NewIngressAnalyzerWithObjects(g.Objs, pe, ca.logger, true)
	vf_Assert(err == nil, "ingress-analyzer-built")
	conns, peers, err := ca.getConnectionsList(pe, ia)
	if err != nil {
		// documented deviation (named port on an IP destination)
		vf_Assert(g.W.zzEgressNamedPort(g.pod("ns1", "a")) || g.W.zzEgressNamedPort(g.pod("ns1", "b")), "unexpected-error")
		return
	}
	m, dup := zzConnMap(conns)
	vf_Assert(!dup, "one-entry-per-ordered-pair")
	for _, c := range conns {
		vf_Assert(c.Src().String() != c.Dst().String(), "no-self-pair")
		vf_Assert(!(c.Src().IsPeerIPType() && c.Dst().IsPeerIPType()), "no-ip-ip-pair")
		cs := GetConnectionSetFromP2PConnection(c)
		vf_Assert(!cs.IsEmpty(), "no-empty-connection")
		vf_Assert(zzCSInv(cs), "connection-canonical")
		if c.AllProtocolsAndPorts() {
			vf_Assert(len(c.ProtocolsAndPorts()) == 0, "all-connections-flag-has-no-ranges")
		}
	}
	// exactly the per-pair answers
	n := 0
	for _, s := range peers {
		for _, d := range peers {
			if s.String() == d.String() || (s.IsPeerIPType() && d.IsPeerIPType()) {
				continue
			}
			want, err := pe.AllAllowedConnectionsBetweenWorkloadPeers(s, d)
			vf_Assert(err == nil, "pair-evaluates")
			got, ok := m[s.String()+"=>"+d.String()]
			if want.IsEmpty() {
				vf_Assert(!ok, "no-entry-for-empty-pair")
				continue
			}
			n++
			vf_Assert(ok, "entry-for-every-nonempty-pair")
			if ok {
				vf_Assert(zzSameDen(want, got, x), "entry-equals-pair-answer")
			}
		}
	}
	vf_Assert(n == len(conns), "no-other-entries")
	vf_Observe("n", len(conns))
}

var _ = common.NoPort
