package connlist

import (
	"fmt"
	"sort"
	"strings"

	metav1 "k8s.io/apimachinery/pkg/apis/meta/v1"
)

// C09 (partial: txt and md of the list report, with and without exposure): the rendered text is exactly the
// encoding of the relation the analysis returned. The reference encoder below is written from the documented
// layout of the two formats, reads the relation through the public accessors (and ConnectionSet.String for a
// connection, a different routine than the formatter's ConnStrFromConnProperties), and is compared with the real
// formatter's text by the solver (the texts carry the symbolic ports).

type zzRow struct{ src, dst, conn string }

func zzSortRows(rows []zzRow, bySrc bool) (sorted []zzRow, ties bool) {
	sorted = append([]zzRow{}, rows...)
	sort.SliceStable(sorted, func(i, j int) bool {
		a, b := sorted[i], sorted[j]
		if bySrc {
			if a.src != b.src {
				return a.src < b.src
			}
			return a.dst < b.dst
		}
		if a.dst != b.dst {
			return a.dst < b.dst
		}
		return a.src < b.src
	})
	for i := 1; i < len(sorted); i++ {
		if sorted[i].src == sorted[i-1].src && sorted[i].dst == sorted[i-1].dst {
			ties = true
		}
	}
	return sorted, ties
}

func zzListRows(conns []Peer2PeerConnection) []zzRow {
	var rows []zzRow
	for _, c := range conns {
		rows = append(rows, zzRow{src: c.Src().String(), dst: c.Dst().String(), conn: GetConnectionSetFromP2PConnection(c).String()})
	}
	return rows
}

// zzExposureRows: the rows of the egress / ingress exposure sections and the "not protected" lines
func zzExposureRows(conns []Peer2PeerConnection, exposed []ExposedPeer) (eg, in []zzRow, unprotected []string) {
	for _, ep := range exposed {
		peer := ep.ExposedPeer().String()
		for _, isIngress := range []bool{true, false} {
			protected, data, dir := ep.IsProtectedByIngressNetpols(), ep.IngressExposure(), "Ingress"
			if !isIngress {
				protected, data, dir = ep.IsProtectedByEgressNetpols(), ep.EgressExposure(), "Egress"
			}
			var rows []zzRow
			mk := func(rep, conn string) zzRow {
				if isIngress {
					return zzRow{src: rep, dst: peer, conn: conn}
				}
				return zzRow{src: peer, dst: rep, conn: conn}
			}
			if !protected {
				rows = append(rows, mk("entire-cluster", "All Connections"))
				unprotected = append(unprotected, peer+" is not protected on "+dir)
			} else {
				for _, d := range data {
					rep := "entire-cluster"
					if !d.IsExposedToEntireCluster() {
						rep = zzRepNs(d.NamespaceLabels()) + "/" + zzRepPod(d.PodLabels())
					}
					rows = append(rows, mk(rep, GetConnectionSetFromP2PConnection(NewPeer2PeerConnection(nil, nil, d.PotentialConnectivity().IsAllConnections(), d.PotentialConnectivity().ProtocolsAndPortsMap())).String()))
				}
			}
			// the workload's connections with IP ranges are repeated in its exposure section
			for _, c := range conns {
				if isIngress && c.Src().IsPeerIPType() && c.Dst().String() == peer || !isIngress && c.Dst().IsPeerIPType() && c.Src().String() == peer {
					rows = append(rows, zzRow{src: c.Src().String(), dst: c.Dst().String(), conn: GetConnectionSetFromP2PConnection(c).String()})
				}
			}
			if isIngress {
				in = append(in, rows...)
			} else {
				eg = append(eg, rows...)
			}
		}
	}
	return eg, in, unprotected
}

// reference rendering of the selectors of a representative peer, written from the layout of the txt/md formats and
// independent of the formatter's helpers: labels as k=v sorted by key, then the expressions in the generated
// text form of a LabelSelectorRequirement without its type name, sorted; the bare namespace name only for a selector
// that consists of the namespace-name label alone
func zzRepSelText(sel metav1.LabelSelector) string {
	var parts []string
	var keys []string
	for k := range sel.MatchLabels {
		keys = append(keys, k)
	}
	sort.Strings(keys)
	for _, k := range keys {
		parts = append(parts, k+"="+sel.MatchLabels[k])
	}
	var reqs []string
	for _, r := range sel.MatchExpressions {
		reqs = append(reqs, "{Key:"+r.Key+",Operator:"+string(r.Operator)+",Values:["+strings.Join(r.Values, " ")+"],}")
	}
	sort.Strings(reqs)
	return strings.Join(append(parts, reqs...), ",")
}

func zzRepNs(sel metav1.LabelSelector) string {
	if len(sel.MatchExpressions) == 0 && len(sel.MatchLabels) == 1 {
		if name, ok := sel.MatchLabels[zzNsNameLabel]; ok {
			return name
		}
	}
	if len(sel.MatchExpressions) == 0 && len(sel.MatchLabels) == 0 {
		return "[all namespaces]"
	}
	return "[namespace with {" + zzRepSelText(sel) + "}]"
}

func zzRepPod(sel metav1.LabelSelector) string {
	if len(sel.MatchExpressions) == 0 && len(sel.MatchLabels) == 0 {
		return "[all pods]"
	}
	return "[pod with {" + zzRepSelText(sel) + "}]"
}

func zzSection(lines []string, header string) string {
	if len(lines) == 0 {
		return ""
	}
	return header + strings.Join(lines, "\n") + "\n"
}

func ZZ_C09_ListTxtMd() {
	zzC08FreeData = true
	g, _ := zzC08World()
	zzC08FreeData = false
	exposure := vf_Choose("exposure", 2) == 1
	opts := []ConnlistAnalyzerOption{WithMuteErrsAndWarns()}
	if exposure {
		opts = append(opts, WithExposureAnalysis())
	}
	ca := NewConnlistAnalyzer(opts...)
	conns, _, err := ca.connsListFromParsedResources(g.Objs)
	if err != nil {
		return // exposure analysis with admin policies is not supported by the tool
	}
	rows, ties := zzSortRows(zzListRows(conns), true)
	vf_Assert(!ties, "one-row-per-ordered-pair")
	var eg, in []zzRow
	var unprotected []string
	maxLen := 0
	if exposure {
		var t1, t2 bool
		eg, in, unprotected = zzExposureRows(conns, ca.ExposedPeers())
		eg, t1 = zzSortRows(eg, true)
		in, t2 = zzSortRows(in, false)
		if t1 || t2 {
			return // equal sort keys: the order of the tied rows is C08's subject, not this check's
		}
		sort.Strings(unprotected)
		for _, ep := range ca.ExposedPeers() {
			if n := len(ep.ExposedPeer().String()); n > maxLen {
				maxLen = n
			}
		}
	}

	// txt
	ca.outputFormat = "txt"
	txt, err := ca.ConnectionsListToString(conns)
	vf_Assert(err == nil, "txt-rendered")
	var lines []string
	for _, r := range rows {
		lines = append(lines, r.src+" => "+r.dst+" : "+r.conn)
	}
	want := strings.Join(lines, "\n") + "\n"
	if exposure {
		if want != "" && want != "\n" {
			want += "\n"
		}
		want += "Exposure Analysis Result:\n"
		f := fmt.Sprintf("%%-%ds \t%%s \t%%s : %%s", maxLen)
		var egL, inL []string
		for _, r := range eg {
			egL = append(egL, fmt.Sprintf(f, r.src, "=>", r.dst, r.conn))
		}
		for _, r := range in {
			inL = append(inL, fmt.Sprintf(f, r.dst, "<=", r.src, r.conn))
		}
		want += zzSection(egL, "Egress Exposure:\n")
		ih := "Ingress Exposure:\n"
		if len(egL) > 0 {
			ih = "\n" + ih
		}
		want += zzSection(inL, ih)
		want += zzSection(unprotected, "\nWorkloads not protected by network policies:\n")
	}
	vf_Assert(txt == want, "txt-encodes-exactly-the-relation")

	// md
	ca.outputFormat = "md"
	md, err := ca.ConnectionsListToString(conns)
	vf_Assert(err == nil, "md-rendered")
	mdl := []string{"| src | dst | conn |\n|-----|-----|------|"}
	for _, r := range rows {
		mdl = append(mdl, "| "+r.src+" | "+r.dst+" | "+r.conn+" |")
	}
	var wantMd string
	if !exposure {
		wantMd = strings.Join(mdl, "\n") + "\n"
	} else {
		mdl = append(mdl, "## Exposure Analysis Result:")
		var egL, inL []string
		for _, r := range eg {
			egL = append(egL, "| "+r.src+" | "+r.dst+" | "+r.conn+" |")
		}
		for _, r := range in {
			inL = append(inL, "| "+r.dst+" | "+r.src+" | "+r.conn+" |")
		}
		mdl = append(mdl, zzSection(egL, "### Egress Exposure:\n| src | dst | conn |\n|-----|-----|------|\n"),
			zzSection(inL, "### Ingress Exposure:\n| dst | src | conn |\n|-----|-----|------|\n"))
		wantMd = strings.Join(mdl, "\n")
	}
	vf_Assert(md == wantMd, "md-encodes-exactly-the-relation")
	vf_Observe("rows", len(rows))

	// dot (the plain list report): one node per workload of the analysis grouped by namespace, one node per IP range /
	// the ingress controller that takes part in a connection, one edge per entry labelled with its connection
	if !exposure {
		ca.outputFormat = "dot"
		dot, err := ca.ConnectionsListToString(conns)
		vf_Assert(err == nil, "dot-rendered")
		vf_Assert(dot == zzDotReference(conns, ca.peersList), "dot-encodes-exactly-the-relation")
	}
}

// zzDotReference: the dot text of a list report, written from the layout of the format (not from the formatter's helpers)
func zzDotReference(conns []Peer2PeerConnection, peers []Peer) string {
	q := func(s string) string { return "\"" + s + "\"" } // no peer name or connection text of the worlds needs escaping
	node := func(p Peer) (line string, external bool) {
		if p.IsPeerIPType() {
			return "\t" + q(p.String()) + " [label=" + q(p.String()) + " color=\"red2\" fontcolor=\"red2\"]", true
		}
		if p.String() == "{ingress-controller}" {
			return "\t" + q(p.String()) + " [label=" + q(p.String()) + " color=\"blue\" fontcolor=\"blue\"]", true
		}
		return "\t" + q(p.String()) + " [label=" + q(p.Name()+"["+p.Kind()+"]") + " color=\"blue\" fontcolor=\"blue\"]", false
	}
	seen := map[string]bool{}
	byNs := map[string][]string{}
	var external, edges []string
	add := func(p Peer) {
		if seen[p.String()] {
			return
		}
		seen[p.String()] = true
		l, ext := node(p)
		if ext {
			external = append(external, l)
		} else {
			byNs[p.Namespace()] = append(byNs[p.Namespace()], "\t"+l)
		}
	}
	for _, c := range conns {
		w := "1"
		if c.Src().String() <= c.Dst().String() {
			w = "0.5"
		}
		edges = append(edges, "\t"+q(c.Src().String())+" -> "+q(c.Dst().String())+" [label="+q(GetConnectionSetFromP2PConnection(c).String())+
			" color=\"gold2\" fontcolor=\"darkgreen\" weight="+w+"]")
		add(c.Src())
		add(c.Dst())
	}
	for _, p := range peers {
		if !p.IsPeerIPType() {
			add(p)
		}
	}
	var nss []string
	for ns := range byNs {
		nss = append(nss, ns)
	}
	sort.Strings(nss)
	lines := []string{"digraph {"}
	for _, ns := range nss {
		ls := byNs[ns]
		sort.Strings(ls)
		lines = append(lines, "\tsubgraph \"cluster_"+strings.ReplaceAll(ns, "-", "_")+"\" {", "\t\tcolor=\"black\"", "\t\tfontcolor=\"black\"")
		lines = append(lines, ls...)
		lines = append(lines, "\t\tlabel=\""+ns+"\"", "\t}")
	}
	sort.Strings(external)
	sort.Strings(edges)
	lines = append(lines, external...)
	lines = append(lines, edges...)
	lines = append(lines, "}")
	return strings.Join(lines, "\n")
}
