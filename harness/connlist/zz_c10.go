package connlist

import (
	"strings"

	ocroutev1 "github.com/openshift/api/route/v1"
	corev1 "k8s.io/api/core/v1"
	netv1 "k8s.io/api/networking/v1"
	metav1 "k8s.io/apimachinery/pkg/apis/meta/v1"
	"k8s.io/apimachinery/pkg/util/intstr"

	"github.com/np-guard/netpol-analyzer/pkg/manifests/parser"
	"github.com/np-guard/netpol-analyzer/pkg/netpol/internal/common"
)

func zzIsTCP(p corev1.Protocol) bool { return p == "" || p == corev1.ProtocolTCP }

// zzReach: x is a TCP container port of the workload reached through the access port (number or name)
func zzReach(cports []corev1.ContainerPort, access intstr.IntOrString, x int64) bool {
	r := false
	for _, c := range cports {
		if !zzIsTCP(c.Protocol) {
			continue
		}
		if access.Type == intstr.String {
			if c.Name != "" && c.Name == access.StrVal {
				r = vf_Or(r, x == int64(c.ContainerPort))
			}
		} else {
			r = vf_Or(r, vf_And(c.ContainerPort == access.IntVal, x == int64(c.ContainerPort)))
		}
	}
	return r
}

func zzAccessPort(sp corev1.ServicePort) intstr.IntOrString {
	if sp.TargetPort.Type == intstr.String && sp.TargetPort.StrVal != "" {
		return sp.TargetPort
	}
	if sp.TargetPort.Type == intstr.Int && sp.TargetPort.IntVal != 0 {
		return sp.TargetPort
	}
	return intstr.FromInt32(sp.Port)
}

// zzIngressRaw: the oracle R_ing before policies, for an Ingress backend {number or name}
func zzIngressRaw(svcPorts []corev1.ServicePort, cports []corev1.ContainerPort, bnum int32, bname string, x int64) bool {
	r := false
	for _, sp := range svcPorts {
		var designated bool
		if bname != "" {
			designated = sp.Name != "" && sp.Name == bname
		} else {
			designated = sp.Port == bnum
		}
		r = vf_Or(r, vf_And(designated, zzReach(cports, zzAccessPort(sp), x)))
	}
	return r
}

// zzRouteRaw: for a Route, the tool's documented reading: the first service port whose name, number or
// targetPort equals spec.port.targetPort; without spec.port every service port
func zzRouteRaw(svcPorts []corev1.ServicePort, cports []corev1.ContainerPort, rp *intstr.IntOrString, x int64) bool {
	r := false
	earlier := false
	for _, sp := range svcPorts {
		if rp == nil {
			r = vf_Or(r, zzReach(cports, zzAccessPort(sp), x))
			continue
		}
		var d bool
		if rp.Type == intstr.String {
			d = (sp.Name != "" && sp.Name == rp.StrVal) || (sp.TargetPort.Type == intstr.String && sp.TargetPort.StrVal == rp.StrVal)
		} else {
			d = vf_Or(sp.Port == rp.IntVal, vf_And(sp.TargetPort.Type == intstr.Int, sp.TargetPort.IntVal == rp.IntVal))
		}
		r = vf_Or(r, vf_And(d, vf_Not(earlier), zzReach(cports, zzAccessPort(sp), x)))
		earlier = vf_Or(earlier, d)
	}
	return r
}

// C10: the ingress-controller line is exactly Ingress/Route -> Service -> TCP container ports ∩ policies
func ZZ_C10_IngressLines() {
	x := zzProbeX()
	hp := zzPortVar("c.http")
	protoK := vf_Choose("c.proto", 3)
	cports := []corev1.ContainerPort{
		{Name: "http", ContainerPort: hp, Protocol: []corev1.Protocol{"", corev1.ProtocolTCP, corev1.ProtocolUDP}[protoK]},
		{Name: "metrics", ContainerPort: 9090, Protocol: corev1.ProtocolTCP},
	}
	objs := []parser.K8sObject{
		zzNsObj("ns1", nil),
		zzDeployObj("ns1", "a", map[string]string{"app": "a"}, cports),
		zzDeployObj("ns1", "b", map[string]string{"app": "b"}, nil),
	}
	// service
	svc := &corev1.Service{ObjectMeta: metav1.ObjectMeta{Name: "svc", Namespace: "ns1"}}
	selects := vf_Choose("svc.selects", 2) == 1
	if selects {
		svc.Spec.Selector = map[string]string{"app": "a"}
	} else {
		svc.Spec.Selector = map[string]string{"app": "zz"}
	}
	sp1 := corev1.ServicePort{Name: "web", Port: zzPortVar("svc.p1")}
	switch vf_Choose("svc.tp1", 3) {
	case 1:
		sp1.TargetPort = intstr.FromInt32(zzPortVar("svc.tp1"))
	case 2:
		sp1.TargetPort = intstr.FromString("http")
	}
	svcPorts := []corev1.ServicePort{sp1}
	if vf_Choose("svc.two", 2) == 1 {
		sp2 := corev1.ServicePort{Name: "adm", Port: zzPortVar("svc.p2"), TargetPort: intstr.FromInt32(9090)}
		if vf_Choose("svc.tp2", 2) == 1 { // no targetPort: the service port number is the access port
			sp2.TargetPort = intstr.IntOrString{}
		}
		vf_Assume(sp2.Port != sp1.Port)
		svcPorts = append(svcPorts, sp2)
	}
	svc.Spec.Ports = svcPorts
	objs = append(objs, parser.K8sObject{Kind: parser.Service, Service: svc})
	// ingress or route
	isRoute := vf_Choose("route", 2) == 1
	var raw bool
	if !isRoute {
		ing := &netv1.Ingress{ObjectMeta: metav1.ObjectMeta{Name: "ing", Namespace: "ns1"}}
		be := &netv1.IngressServiceBackend{Name: "svc"}
		var bnum int32
		bname := ""
		switch vf_Choose("be.port", 4) {
		case 0:
			bnum = zzPortVar("be.num")
			be.Port.Number = bnum
			// the backend number equal to a service *targetPort* (and to no service port number) is accepted by the tool
			k := false
			for _, sp := range svcPorts {
				if sp.TargetPort.Type == intstr.Int {
					k = vf_Or(k, sp.TargetPort.IntVal == bnum)
				}
			}
			vf_Known("C10-ingress-number-matches-targetport", k)
		case 1:
			bname = "web"
			be.Port.Name = bname
		case 2: // the name of a *targetPort*, not of a service port
			bname = "http"
			be.Port.Name = bname
		default:
			bname = "nosuch"
			be.Port.Name = bname
		}
		if vf_Choose("be.where", 2) == 0 {
			ing.Spec.DefaultBackend = &netv1.IngressBackend{Service: be}
		} else {
			ing.Spec.Rules = []netv1.IngressRule{{IngressRuleValue: netv1.IngressRuleValue{HTTP: &netv1.HTTPIngressRuleValue{
				Paths: []netv1.HTTPIngressPath{{Path: "/", Backend: netv1.IngressBackend{Service: be}}}}}}}
		}
		objs = append(objs, parser.K8sObject{Kind: parser.Ingress, Ingress: ing})
		raw = zzIngressRaw(svcPorts, cports, bnum, bname, x)
	} else {
		rt := &ocroutev1.Route{ObjectMeta: metav1.ObjectMeta{Name: "rt", Namespace: "ns1"}}
		rt.Spec.To = ocroutev1.RouteTargetReference{Kind: "Service", Name: "svc"}
		var rp *intstr.IntOrString
		switch vf_Choose("rt.port", 3) {
		case 1:
			v := intstr.FromInt32(zzPortVar("rt.num"))
			rp = &v
		case 2:
			v := intstr.FromString([]string{"web", "http"}[vf_Choose("rt.name", 2)])
			rp = &v
		}
		if rp != nil {
			rt.Spec.Port = &ocroutev1.RoutePort{TargetPort: *rp}
		}
		objs = append(objs, parser.K8sObject{Kind: parser.Route, Route: rt})
		raw = zzRouteRaw(svcPorts, cports, rp, x)
	}
	if !selects {
		raw = false
	}
	// policy: none / ingress to a from everybody on a symbolic TCP range / ingress from app=b only
	polAllows := true
	switch vf_Choose("policy", 3) {
	case 1:
		p, e := zzPortVar("np.p"), zzPortVar("np.e")
		vf_Assume(p <= e)
		objs = append(objs, zzNetpolObj("ns1", "np", netv1.NetworkPolicySpec{
			PodSelector: metav1.LabelSelector{MatchLabels: map[string]string{"app": "a"}},
			Ingress:     []netv1.NetworkPolicyIngressRule{{Ports: []netv1.NetworkPolicyPort{zzPortRange(corev1.ProtocolTCP, p, e)}}},
		}))
		polAllows = vf_And(int64(p) <= x, x <= int64(e))
	case 2:
		objs = append(objs, zzNetpolObj("ns1", "np", netv1.NetworkPolicySpec{
			PodSelector: metav1.LabelSelector{MatchLabels: map[string]string{"app": "a"}},
			Ingress:     []netv1.NetworkPolicyIngressRule{{From: []netv1.NetworkPolicyPeer{{PodSelector: zzSel("app", "b")}}}},
		}))
		polAllows = false
	}
	ca := NewConnlistAnalyzer(WithMuteErrsAndWarns())
	conns, _, err := ca.connsListFromParsedResources(objs)
	vf_Assert(err == nil, "analysis-succeeds")
	var line *common.ConnectionSet
	for _, c := range conns {
		if c.Src().String() == "{"+common.IngressPodName+"}" {
			vf_Assert(line == nil && strings.HasPrefix(c.Dst().String(), "ns1/a["), "single-line-to-the-target-workload")
			line = GetConnectionSetFromP2PConnection(c)
		}
	}
	want := vf_And(raw, polAllows)
	if line != nil {
		vf_Assert(vf_Iff(zzDenCS(line, corev1.ProtocolTCP, x), want), "ingress-line-connections")
		vf_Assert(vf_And(vf_Not(zzDenCS(line, corev1.ProtocolUDP, x)), vf_Not(zzDenCS(line, corev1.ProtocolSCTP, x))), "ingress-line-tcp-only")
		vf_Assert(!line.IsEmpty(), "ingress-line-not-empty")
	} else {
		vf_Assert(vf_Not(want), "ingress-line-missing")
		warned := false
		for _, e := range ca.Errors() {
			if strings.Contains(e.Error().Error(), "ns1/a") {
				warned = true
			}
		}
		if !warned {
			vf_Assert(vf_Not(raw), "blocked-ingress-warning")
		}
	}
	vf_Observe("line", line != nil)
}
