package connlist

import (
	"strings"

	appsv1 "k8s.io/api/apps/v1"
	batchv1 "k8s.io/api/batch/v1"
	corev1 "k8s.io/api/core/v1"
	netv1 "k8s.io/api/networking/v1"
	metav1 "k8s.io/apimachinery/pkg/apis/meta/v1"

	"github.com/np-guard/netpol-analyzer/pkg/manifests/parser"
	"github.com/np-guard/netpol-analyzer/pkg/netpol/internal/common"
)

var zzProtos3 = []corev1.Protocol{corev1.ProtocolTCP, corev1.ProtocolUDP, corev1.ProtocolSCTP}

func zzProbeX() int64 {
	x := vf_Int64N("x", 17)
	vf_Assume(vf_And(x >= 1, x <= 65535))
	return x
}

// zzConnMap: report -> map "src=>dst" -> connection set (keys are concrete: no symbolic IP blocks here)
func zzConnMap(conns []Peer2PeerConnection) (map[string]*common.ConnectionSet, bool) {
	m := map[string]*common.ConnectionSet{}
	dup := false
	for _, c := range conns {
		k := c.Src().String() + "=>" + c.Dst().String()
		if _, ok := m[k]; ok {
			dup = true
		}
		m[k] = GetConnectionSetFromP2PConnection(c)
	}
	return m, dup
}

func zzSameDen(a, b *common.ConnectionSet, x int64) bool {
	r := true
	for _, p := range zzProtos3 {
		r = vf_And(r, vf_Iff(zzDenCS(a, p, x), zzDenCS(b, p, x)))
	}
	return r
}

// ---- C16 -------------------------------------------------------------------------------------------

func zzC16World() []parser.K8sObject {
	p, e := zzPortVar("np.p"), zzPortVar("np.e")
	vf_Assume(p <= e)
	withIngress := vf_Choose("withIngress", 3) // 1: an Ingress towards ns1/a (blocked by the policy); 2: also towards ns2/a and xns1/a (same name)
	var web []corev1.ContainerPort
	if withIngress == 2 {
		web = []corev1.ContainerPort{{ContainerPort: 8080}}
	}
	objs := []parser.K8sObject{
		zzDeployObj("ns1", "a", map[string]string{"app": "a"}, []corev1.ContainerPort{{ContainerPort: 8080}}),
		zzDeployObj("ns1", "b", map[string]string{"app": "b"}, nil),
		zzDeployObj("ns2", "a", map[string]string{"app": "a2"}, web),
		zzDeployObj("ns2", "c", map[string]string{"app": "c"}, nil),
		// names related by suffix / shared by two kinds must not be confused by the filter
		zzDeployObj("ns1", "ba", map[string]string{"app": "ba"}, nil),
		zzDeployObj("xns1", "a", map[string]string{"app": "xa"}, web),
		zzPodObj("ns1", "b", map[string]string{"app": "bpod"}, nil, ""),
		zzNetpolObj("ns1", "np1", netv1.NetworkPolicySpec{
			PodSelector: metav1.LabelSelector{MatchLabels: map[string]string{"app": "a"}},
			Ingress: []netv1.NetworkPolicyIngressRule{{From: []netv1.NetworkPolicyPeer{{PodSelector: zzSel("app", "b")}, {NamespaceSelector: zzSel(zzNsNameLabel, "ns2")}},
				Ports: []netv1.NetworkPolicyPort{zzPortRange(corev1.ProtocolTCP, p, e)}}},
		}),
	}
	addIngress := func(ns, app string) {
		svc := &corev1.Service{ObjectMeta: metav1.ObjectMeta{Name: "svc", Namespace: ns}}
		svc.Spec.Selector = map[string]string{"app": app}
		svc.Spec.Ports = []corev1.ServicePort{{Name: "web", Port: 80, TargetPort: *zzIntStrPtr(8080)}}
		ing := &netv1.Ingress{ObjectMeta: metav1.ObjectMeta{Name: "ing", Namespace: ns}}
		ing.Spec.DefaultBackend = &netv1.IngressBackend{Service: &netv1.IngressServiceBackend{Name: "svc", Port: netv1.ServiceBackendPort{Number: 80}}}
		objs = append(objs, parser.K8sObject{Kind: parser.Service, Service: svc}, parser.K8sObject{Kind: parser.Ingress, Ingress: ing})
	}
	if withIngress >= 1 {
		addIngress("ns1", "a")
	}
	if withIngress == 2 {
		addIngress("ns2", "a2")
		addIngress("xns1", "xa")
	}
	return objs
}

var zzFocusValues = []string{"a", "ns1/a", "ns2/a", "b", "ns1/b", "c", "zzz", "ns3/a", "s1/a", common.IngressPodName}

// zzMatchesFocus: the peer string "ns/name[Kind]" (or {ingress-controller}) matches the focus value
func zzMatchesFocus(peerStr, focus string) bool {
	if peerStr == "{"+common.IngressPodName+"}" {
		return focus == common.IngressPodName
	}
	i := strings.Index(peerStr, "[")
	if i < 0 {
		return false // an IP peer
	}
	nsName := peerStr[:i]
	name := nsName[strings.Index(nsName, "/")+1:]
	return focus == nsName || focus == name
}

// C16: the focused report is exactly the filter of the unfocused one
func ZZ_C16_FocusIsFilter() {
	objs := zzC16World()
	x := zzProbeX()
	focus := zzFocusValues[vf_Choose("focus", len(zzFocusValues))]
	expo := vf_Choose("exposure", 2) == 1
	mk := func(f string) *ConnlistAnalyzer {
		opts := []ConnlistAnalyzerOption{WithMuteErrsAndWarns()}
		if f != "" {
			opts = append(opts, WithFocusWorkload(f))
		}
		if expo {
			opts = append(opts, WithExposureAnalysis())
		}
		return NewConnlistAnalyzer(opts...)
	}
	full, _, err := mk("").connsListFromParsedResources(objs)
	vf_Assert(err == nil, "unfocused-analysis-succeeds")
	caF := mk(focus)
	foc, _, err := caF.connsListFromParsedResources(objs)
	vf_Assert(err == nil, "focus-never-an-error")
	fm, dup1 := zzConnMap(full)
	gm, dup2 := zzConnMap(foc)
	vf_Assert(!dup1 && !dup2, "one-entry-per-pair")
	nexp := 0
	for k, cs := range fm {
		parts := strings.SplitN(k, "=>", 2)
		if zzMatchesFocus(parts[0], focus) || zzMatchesFocus(parts[1], focus) {
			nexp++
			g, ok := gm[k]
			vf_Assert(ok, "focused-keeps-matching-entry")
			if ok {
				vf_Assert(zzSameDen(cs, g, x), "focused-entry-same-connections")
			}
		}
	}
	vf_Assert(len(gm) == nexp, "focused-has-no-other-entry")
	if nexp == 0 {
		vf_Assert(len(foc) == 0, "no-match-empty-result")
		warned := false
		for _, e := range caF.Errors() {
			if !e.IsFatal() && !e.IsSevere() {
				warned = true
			}
		}
		vf_Assert(warned, "no-match-warning")
	}
	vf_Observe("nfull", len(full))
	vf_Observe("nfoc", len(foc))
}

// ---- C17 -------------------------------------------------------------------------------------------

var zzKinds = []string{parser.Deployment, parser.ReplicaSet, parser.StatefulSet, parser.DaemonSet, parser.Job, parser.CronJob, parser.ReplicationController, "Pods"}

// zzWorkloadAs: the pod template (labels, ports) expressed as the given kind with the given replicas
func zzWorkloadAs(kind, ns, name string, labels map[string]string, ports []corev1.ContainerPort, replicas *int32, nPods int) []parser.K8sObject {
	tmpl := zzPodTemplate(labels, ports)
	om := metav1.ObjectMeta{Name: name, Namespace: ns}
	switch kind {
	case parser.Deployment:
		return []parser.K8sObject{{Kind: kind, Deployment: &appsv1.Deployment{ObjectMeta: om, Spec: appsv1.DeploymentSpec{Replicas: replicas, Template: tmpl}}}}
	case parser.ReplicaSet:
		return []parser.K8sObject{{Kind: kind, ReplicaSet: &appsv1.ReplicaSet{ObjectMeta: om, Spec: appsv1.ReplicaSetSpec{Replicas: replicas, Template: tmpl}}}}
	case parser.StatefulSet:
		return []parser.K8sObject{{Kind: kind, StatefulSet: &appsv1.StatefulSet{ObjectMeta: om, Spec: appsv1.StatefulSetSpec{Replicas: replicas, Template: tmpl}}}}
	case parser.DaemonSet:
		return []parser.K8sObject{{Kind: kind, DaemonSet: &appsv1.DaemonSet{ObjectMeta: om, Spec: appsv1.DaemonSetSpec{Template: tmpl}}}}
	case parser.Job:
		return []parser.K8sObject{{Kind: kind, Job: &batchv1.Job{ObjectMeta: om, Spec: batchv1.JobSpec{Parallelism: replicas, Template: tmpl}}}}
	case parser.CronJob:
		return []parser.K8sObject{{Kind: kind, CronJob: &batchv1.CronJob{ObjectMeta: om, Spec: batchv1.CronJobSpec{JobTemplate: batchv1.JobTemplateSpec{Spec: batchv1.JobSpec{Template: tmpl}}}}}}
	case parser.ReplicationController:
		return []parser.K8sObject{{Kind: kind, ReplicationController: &corev1.ReplicationController{ObjectMeta: om, Spec: corev1.ReplicationControllerSpec{Replicas: replicas, Template: &tmpl}}}}
	}
	// bare pods sharing one controller ownerReference
	var res []parser.K8sObject
	for i := 0; i < nPods; i++ {
		res = append(res, zzPodObj(ns, name+"-pod"+string(rune('a'+i)), labels, ports, name))
	}
	return res
}

// zzStripKind: "ns/name[Kind]" -> "ns/name"
func zzStripKind(s string) string {
	if i := strings.Index(s, "["); i >= 0 {
		return s[:i]
	}
	return s
}

func zzConnMapNoKind(conns []Peer2PeerConnection) (map[string]*common.ConnectionSet, bool) {
	m := map[string]*common.ConnectionSet{}
	dup := false
	for _, c := range conns {
		k := zzStripKind(c.Src().String()) + "=>" + zzStripKind(c.Dst().String())
		if _, ok := m[k]; ok {
			dup = true
		}
		m[k] = GetConnectionSetFromP2PConnection(c)
	}
	return m, dup
}

// C17: the report depends only on namespace, template labels and ports — not on kind or replicas
func ZZ_C17_KindAndReplicas() {
	p, e := zzPortVar("np.p"), zzPortVar("np.e")
	vf_Assume(p <= e)
	x := zzProbeX()
	labels := map[string]string{"app": "x", "example.com/canary": ""} // an empty label value is legal
	ports := []corev1.ContainerPort{{Name: "http", ContainerPort: zzPortVar("x.http")}}
	rest := []parser.K8sObject{
		zzDeployObj("ns1", "b", map[string]string{"app": "b"}, nil),
		zzNetpolObj("ns1", "np1", netv1.NetworkPolicySpec{
			PodSelector: metav1.LabelSelector{MatchLabels: map[string]string{"app": "x"}},
			PolicyTypes: []netv1.PolicyType{netv1.PolicyTypeIngress, netv1.PolicyTypeEgress},
			Ingress: []netv1.NetworkPolicyIngressRule{
				{From: []netv1.NetworkPolicyPeer{{PodSelector: zzSel("app", "b")}}, Ports: []netv1.NetworkPolicyPort{zzPortRange(corev1.ProtocolTCP, p, e)}},
				{From: []netv1.NetworkPolicyPeer{{PodSelector: zzSel("app", "x")}}, Ports: []netv1.NetworkPolicyPort{zzPortName(corev1.ProtocolTCP, "http")}},
			},
			Egress: []netv1.NetworkPolicyEgressRule{{To: []netv1.NetworkPolicyPeer{{PodSelector: zzSel("app", "x")}}}},
		}),
	}
	kind := zzKinds[vf_Choose("kind", len(zzKinds))]
	var replicas *int32
	if vf_Choose("replicas.nil", 2) == 0 {
		r := vf_Int32("replicas")
		replicas = &r
	}
	nPods := 1 + vf_Choose("npods", 3)
	base, _, err := NewConnlistAnalyzer(WithMuteErrsAndWarns()).connsListFromParsedResources(
		append(zzWorkloadAs(parser.Deployment, "ns1", "x", labels, ports, nil, 1), rest...))
	vf_Assert(err == nil, "baseline-succeeds")
	got, peers, err := NewConnlistAnalyzer(WithMuteErrsAndWarns()).connsListFromParsedResources(
		append(zzWorkloadAs(kind, "ns1", "x", labels, ports, replicas, nPods), rest...))
	vf_Assert(err == nil, "re-expression-succeeds")
	bm, _ := zzConnMapNoKind(base)
	gm, dup := zzConnMapNoKind(got)
	vf_Assert(!dup, "one-entry-per-pair")
	vf_Assert(len(bm) == len(gm), "same-pairs")
	for k, cs := range bm {
		g, ok := gm[k]
		vf_Assert(ok, "same-pairs")
		if ok {
			vf_Assert(zzSameDen(cs, g, x), "same-connections")
		}
	}
	nw := 0
	for _, pr := range peers {
		if !pr.IsPeerIPType() {
			nw++
		}
	}
	vf_Assert(nw == 2, "one-peer-per-workload")
	for _, c := range got {
		vf_Assert(c.Src().String() != c.Dst().String(), "no-self-connection")
	}
	vf_Observe("n", len(got))
}

// C17: distinct workloads never shadow each other (names that collide after pod-name generation)
func ZZ_C17_DistinctWorkloads() {
	names := []string{"a", "a-1", "b"}
	kinds := []string{parser.Deployment, parser.StatefulSet, parser.Job}
	n1, n2 := names[vf_Choose("n1", 3)], names[vf_Choose("n2", 3)]
	k1, k2 := kinds[vf_Choose("k1", 3)], kinds[vf_Choose("k2", 3)]
	if n1 == n2 && k1 == k2 {
		vf_Assume(false)
	}
	if n1 == n2 {
		vf_Known("C17-same-name-two-kinds", vf_And(true))
	}
	var r1 *int32
	if vf_Choose("r1.nil", 2) == 0 {
		r := vf_Int32("r1")
		r1 = &r
	}
	objs := append(zzWorkloadAs(k1, "ns1", n1, map[string]string{"app": "p"}, nil, r1, 1),
		zzWorkloadAs(k2, "ns1", n2, map[string]string{"app": "q"}, nil, nil, 1)...)
	_, peers, err := NewConnlistAnalyzer(WithMuteErrsAndWarns()).connsListFromParsedResources(objs)
	vf_Assert(err == nil, "analysis-succeeds")
	nw := 0
	for _, pr := range peers {
		if !pr.IsPeerIPType() {
			nw++
		}
	}
	vf_Assert(nw == 2, "every-workload-is-a-peer")
	vf_Observe("nw", nw)
}

// C17: bare pods that only carry a non-controller ownerReference to a common object are distinct workloads
func ZZ_C17_NonControllerOwnerReference() {
	var ctl *bool
	switch vf_Choose("controller", 3) {
	case 1:
		f := false
		ctl = &f
	case 2:
		tr := true
		ctl = &tr
	}
	sameLabels := vf_Choose("sameLabels", 2) == 1
	l2 := map[string]string{"app": "w"}
	if sameLabels {
		l2 = map[string]string{"app": "v"}
	}
	objs := []parser.K8sObject{
		zzPodObjRef("ns1", "api", map[string]string{"app": "v"}, "ConfigMap", "shared", ctl),
		zzPodObjRef("ns1", "worker", l2, "ConfigMap", "shared", ctl),
		zzDeployObj("ns1", "client", map[string]string{"app": "c"}, nil),
	}
	_, peers, err := NewConnlistAnalyzer(WithMuteErrsAndWarns()).connsListFromParsedResources(objs)
	isController := ctl != nil && *ctl
	if isController {
		// both pods belong to the controller "shared": one peer if the labels agree, otherwise the documented error
		if !sameLabels {
			vf_Assert(err != nil, "inconsistent-owner-labels-rejected")
			return
		}
	}
	vf_Assert(err == nil, "analysis-succeeds")
	nw := 0
	for _, pr := range peers {
		if !pr.IsPeerIPType() {
			nw++
		}
	}
	if isController {
		vf_Assert(nw == 2, "pods-of-one-controller-collapse")
	} else {
		vf_Assert(nw == 3, "independent-pods-stay-distinct")
	}
	vf_Observe("nw", nw)
}
