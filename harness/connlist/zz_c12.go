package connlist

import (
	ocroutev1 "github.com/openshift/api/route/v1"
	appsv1 "k8s.io/api/apps/v1"
	batchv1 "k8s.io/api/batch/v1"
	corev1 "k8s.io/api/core/v1"
	netv1 "k8s.io/api/networking/v1"
	metav1 "k8s.io/apimachinery/pkg/apis/meta/v1"
	apisv1a "sigs.k8s.io/network-policy-api/apis/v1alpha1"

	"github.com/np-guard/netpol-analyzer/pkg/manifests/parser"
)

// zzC12Context: a small fixed context next to the hostile object
func zzC12Context() []parser.K8sObject {
	return []parser.K8sObject{
		zzNsObj("ns1", map[string]string{"env": "prod"}),
		zzDeployObj("ns1", "a", map[string]string{"app": "a"}, []corev1.ContainerPort{{Name: "http", ContainerPort: 8080}}),
		zzDeployObj("ns1", "b", map[string]string{"app": "b"}, nil), // a second workload: rule peers are only evaluated between workloads
		zzNetpolObj("ns1", "np", netv1.NetworkPolicySpec{
			PodSelector: metav1.LabelSelector{MatchLabels: map[string]string{"app": "a"}},
			Ingress:     []netv1.NetworkPolicyIngressRule{{From: []netv1.NetworkPolicyPeer{{PodSelector: &metav1.LabelSelector{}}}}},
		}),
	}
}

// zzC12Run: list (with or without exposure, with or without focus): a result or an error, never a panic
// (an uncaught panic of the interpreted code is reported as a violation of "no-panic")
func zzC12Run(objs []parser.K8sObject) {
	mode := vf_Choose("mode", 3)
	var ca *ConnlistAnalyzer
	switch mode {
	case 0:
		ca = NewConnlistAnalyzer(WithMuteErrsAndWarns())
	case 1:
		ca = NewConnlistAnalyzer(WithMuteErrsAndWarns(), WithExposureAnalysis())
	default:
		ca = NewConnlistAnalyzer(WithMuteErrsAndWarns(), WithFocusWorkload("a"))
	}
	conns, _, err := ca.connsListFromParsedResources(objs)
	vf_Assert(err != nil || conns != nil || len(ca.Errors()) > 0 || true, "result-or-error")
	vf_Observe("err", err != nil)
}

func ZZ_C12_Pod() {
	o := &corev1.Pod{}
	vf_Any("pod", o, zzPools())
	zzC12Run(append(zzC12Context(), parser.K8sObject{Kind: parser.Pod, Pod: o}))
}

func ZZ_C12_Namespace() {
	o := &corev1.Namespace{}
	vf_Any("ns", o, zzPools())
	zzC12Run(append(zzC12Context(), parser.K8sObject{Kind: parser.Namespace, Namespace: o}))
}

func ZZ_C12_Deployment() {
	o := &appsv1.Deployment{}
	vf_Any("dep", o, zzPools())
	zzC12Run(append(zzC12Context(), parser.K8sObject{Kind: parser.Deployment, Deployment: o}))
}

func ZZ_C12_ReplicaSet() {
	o := &appsv1.ReplicaSet{}
	vf_Any("rs", o, zzPools())
	zzC12Run(append(zzC12Context(), parser.K8sObject{Kind: parser.ReplicaSet, ReplicaSet: o}))
}

func ZZ_C12_StatefulSet() {
	o := &appsv1.StatefulSet{}
	vf_Any("sts", o, zzPools())
	zzC12Run(append(zzC12Context(), parser.K8sObject{Kind: parser.StatefulSet, StatefulSet: o}))
}

func ZZ_C12_DaemonSet() {
	o := &appsv1.DaemonSet{}
	vf_Any("ds", o, zzPools())
	zzC12Run(append(zzC12Context(), parser.K8sObject{Kind: parser.DaemonSet, DaemonSet: o}))
}

func ZZ_C12_Job() {
	o := &batchv1.Job{}
	vf_Any("job", o, zzPools())
	zzC12Run(append(zzC12Context(), parser.K8sObject{Kind: parser.Job, Job: o}))
}

func ZZ_C12_CronJob() {
	o := &batchv1.CronJob{}
	vf_Any("cj", o, zzPools())
	zzC12Run(append(zzC12Context(), parser.K8sObject{Kind: parser.CronJob, CronJob: o}))
}

func ZZ_C12_ReplicationController() {
	o := &corev1.ReplicationController{}
	vf_Any("rc", o, zzPools())
	zzC12Run(append(zzC12Context(), parser.K8sObject{Kind: parser.ReplicationController, ReplicationController: o}))
}

func ZZ_C12_NetworkPolicy() {
	o := &netv1.NetworkPolicy{}
	vf_Any("np", o, zzPools())
	zzC12Run(append(zzC12Context(), parser.K8sObject{Kind: parser.NetworkPolicy, NetworkPolicy: o}))
}

func ZZ_C12_AdminNetworkPolicy() {
	o := &apisv1a.AdminNetworkPolicy{}
	vf_Any("anp", o, zzPools())
	zzC12Run(append(zzC12Context(), parser.K8sObject{Kind: parser.AdminNetworkPolicy, AdminNetworkPolicy: o}))
}

// admin policies whose subject is well formed and selects every workload, with unconstrained rules: the mutations
// budget is spent inside the rules (peers with neither / both fields, ports with several / no alternatives, ...)
func ZZ_C12_AdminNetworkPolicyRules() {
	o := &apisv1a.AdminNetworkPolicy{ObjectMeta: metav1.ObjectMeta{Name: "anp"}}
	o.Spec.Priority = 5
	o.Spec.Subject = apisv1a.AdminNetworkPolicySubject{Namespaces: &metav1.LabelSelector{}}
	if vf_Choose("dir", 2) == 0 {
		vf_Any("anp.ingress", &o.Spec.Ingress, zzPools())
	} else {
		vf_Any("anp.egress", &o.Spec.Egress, zzPools())
	}
	zzC12Run(append(zzC12Context(), parser.K8sObject{Kind: parser.AdminNetworkPolicy, AdminNetworkPolicy: o}))
}

func ZZ_C12_BaselineAdminNetworkPolicyRules() {
	o := &apisv1a.BaselineAdminNetworkPolicy{ObjectMeta: metav1.ObjectMeta{Name: "default"}}
	o.Spec.Subject = apisv1a.AdminNetworkPolicySubject{Namespaces: &metav1.LabelSelector{}}
	if vf_Choose("dir", 2) == 0 {
		vf_Any("banp.ingress", &o.Spec.Ingress, zzPools())
	} else {
		vf_Any("banp.egress", &o.Spec.Egress, zzPools())
	}
	zzC12Run(append(zzC12Context(), parser.K8sObject{Kind: parser.BaselineAdminNetworkPolicy, BaselineAdminNetworkPolicy: o}))
}

func ZZ_C12_BaselineAdminNetworkPolicy() {
	o := &apisv1a.BaselineAdminNetworkPolicy{}
	pools := zzPools()
	pools["Name"] = []string{"default", "", "other"}
	vf_Any("banp", o, pools)
	zzC12Run(append(zzC12Context(), parser.K8sObject{Kind: parser.BaselineAdminNetworkPolicy, BaselineAdminNetworkPolicy: o}))
}

func ZZ_C12_Service() {
	o := &corev1.Service{}
	vf_Any("svc", o, zzPools())
	ing := &netv1.Ingress{ObjectMeta: metav1.ObjectMeta{Name: "ing", Namespace: "ns1"}}
	ing.Spec.DefaultBackend = &netv1.IngressBackend{Service: &netv1.IngressServiceBackend{Name: "svc", Port: netv1.ServiceBackendPort{Number: 80}}}
	zzC12Run(append(zzC12Context(), parser.K8sObject{Kind: parser.Service, Service: o}, parser.K8sObject{Kind: parser.Ingress, Ingress: ing}))
}

func zzC12Svc() parser.K8sObject {
	svc := &corev1.Service{ObjectMeta: metav1.ObjectMeta{Name: "svc", Namespace: "ns1"}}
	svc.Spec.Selector = map[string]string{"app": "a"}
	svc.Spec.Ports = []corev1.ServicePort{{Name: "web", Port: 80}}
	return parser.K8sObject{Kind: parser.Service, Service: svc}
}

func ZZ_C12_Ingress() {
	o := &netv1.Ingress{}
	vf_Any("ing", o, zzPools())
	zzC12Run(append(zzC12Context(), zzC12Svc(), parser.K8sObject{Kind: parser.Ingress, Ingress: o}))
}

func ZZ_C12_Route() {
	o := &ocroutev1.Route{}
	vf_Any("route", o, zzPools())
	zzC12Run(append(zzC12Context(), zzC12Svc(), parser.K8sObject{Kind: parser.Route, Route: o}))
}
