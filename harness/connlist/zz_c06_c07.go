package connlist

import (
	corev1 "k8s.io/api/core/v1"
	netv1 "k8s.io/api/networking/v1"
	metav1 "k8s.io/apimachinery/pkg/apis/meta/v1"

	"github.com/np-guard/netpol-analyzer/pkg/netpol/internal/common"
)

// peers of a rule for the exposure harnesses
func zzExpPeers(g *zzGen, k int) []netv1.NetworkPolicyPeer {
	in := func(key string, vals ...string) *metav1.LabelSelector {
		return &metav1.LabelSelector{MatchExpressions: []metav1.LabelSelectorRequirement{{Key: key, Operator: metav1.LabelSelectorOpIn, Values: vals}}}
	}
	switch k {
	case 1: // policy namespace, app=b: an existing workload satisfies it (documented omission)
		return []netv1.NetworkPolicyPeer{{PodSelector: zzSel("app", "b")}}
	case 2: // policy namespace, app=q: nobody satisfies it
		return []netv1.NetworkPolicyPeer{{PodSelector: zzSel("app", "q")}}
	case 3: // all pods of namespaces with env=prod
		return []netv1.NetworkPolicyPeer{{NamespaceSelector: zzSel("env", "prod")}}
	case 4: // entire cluster
		return []netv1.NetworkPolicyPeer{{NamespaceSelector: &metav1.LabelSelector{}}}
	case 5: // any namespace, app=q
		return []netv1.NetworkPolicyPeer{{NamespaceSelector: &metav1.LabelSelector{}, PodSelector: zzSel("app", "q")}}
	case 6: // expression selectors
		return []netv1.NetworkPolicyPeer{{NamespaceSelector: in("env", "prod", "dev"), PodSelector: in("app", "b", "q")}}
	case 7: // two peers: app=q here, and namespace ns2 by name
		return []netv1.NetworkPolicyPeer{{PodSelector: zzSel("app", "q")}, {NamespaceSelector: zzSel(zzNsNameLabel, "ns2")}}
	case 8: // a concrete ipBlock
		return []netv1.NetworkPolicyPeer{{IPBlock: &netv1.IPBlock{CIDR: "10.0.0.0/8"}}}
	case 10: // namespace selector with label equalities AND an expression; an existing workload (b in ns1) matches the
		// pod selector and the equality part only: the representative peer must not be refined away
		return []netv1.NetworkPolicyPeer{{PodSelector: zzSel("app", "b"), NamespaceSelector: &metav1.LabelSelector{
			MatchLabels:      map[string]string{"env": "prod"},
			MatchExpressions: []metav1.LabelSelectorRequirement{{Key: "tier", Operator: metav1.LabelSelectorOpNotIn, Values: []string{"restricted"}}}}}}
	case 11: // any namespace, pod selector made only of an expression
		return []netv1.NetworkPolicyPeer{{NamespaceSelector: &metav1.LabelSelector{}, PodSelector: in("app", "q", "other")}}
	case 9: // single-value In (equivalent to matchLabels) in another namespace set
		return []netv1.NetworkPolicyPeer{{NamespaceSelector: zzSel("env", "dev"), PodSelector: in("app", "q")}}
	}
	return nil // no peers: everything, incl. external
}

const zzNExpPeers = 12

// hypothetical pod H
type zzHyp struct {
	pod     *zzWPod
	nsL     map[string]string
	isNewNs bool
}

func zzGenHyp(g *zzGen) *zzWorld {
	w := &zzWorld{Nss: append([]zzWNs{}, g.W.Nss...), Pods: append([]*zzWPod{}, g.W.Pods...), NPs: g.W.NPs}
	labels := map[string]string{}
	switch vf_Choose("h.app", 4) {
	case 1:
		labels["app"] = "b"
	case 2:
		labels["app"] = "q"
	case 3:
		labels["app"] = "other"
	}
	if vf_Choose("h.fresh", 2) == 1 {
		labels["zz"] = "1"
	}
	ns := ""
	switch vf_Choose("h.ns", 4) {
	case 0:
		ns = "ns1"
	case 1:
		ns = "ns2"
	case 2:
		ns = "nsnew"
		w.Nss = append(w.Nss, zzWNs{Name: ns, Labels: map[string]string{"env": "prod"}, HasObj: true})
	default:
		ns = "nsbare"
		w.Nss = append(w.Nss, zzWNs{Name: ns, HasObj: false})
	}
	hp := zzPortVar("h.http")
	h := &zzWPod{Ns: ns, Name: "hyp", Labels: labels, Ports: []corev1.ContainerPort{{Name: "http", ContainerPort: hp, Protocol: corev1.ProtocolTCP}}}
	w.Pods = append(w.Pods, h)
	return w
}

// zzEntryCovers: (proto,x) is covered by the exposure entry's connection; a named port in the entry means the
// port of that name as declared by the pod `named` (the hypothetical pod for egress entries)
func zzEntryCovers(conn common.Connection, proto corev1.Protocol, x int64, named *zzWPod) bool {
	cs := conn.(*common.ConnectionSet)
	r := zzDenCS(cs, proto, x)
	if ps, ok := cs.AllowedProtocols[proto]; ok && !cs.AllowAll {
		for name := range ps.NamedPorts {
			if named != nil {
				if num, ok := zzNamedPort(named, name, proto); ok {
					r = vf_Or(r, x == int64(num))
				}
			}
		}
	}
	return r
}

// zzOmittedRulePeer: the documented refinement — a rule peer made only of label equalities (pod selector and
// namespace selector, nil namespace selector = the policy's namespace) that an existing workload satisfies
func zzOmittedPeer(w *zzWorld, np *netv1.NetworkPolicy, pr *netv1.NetworkPolicyPeer, real []*zzWPod) bool {
	if pr.IPBlock != nil || pr.PodSelector == nil || len(pr.PodSelector.MatchExpressions) > 0 || len(pr.PodSelector.MatchLabels) == 0 {
		return false
	}
	var nsSel *metav1.LabelSelector
	if pr.NamespaceSelector == nil {
		nsSel = zzSel(zzNsNameLabel, zzNPNamespace(np))
	} else {
		nsSel = pr.NamespaceSelector
	}
	if len(nsSel.MatchExpressions) > 0 || len(nsSel.MatchLabels) == 0 {
		return false
	}
	for _, r := range real {
		if zzSelMatches(pr.PodSelector, r.Labels) && zzSelMatches(nsSel, w.nsLabels(r.Ns)) {
			return true
		}
	}
	return false
}

// C06 + C07 on one protected workload
func ZZ_C06_C07_Exposure() { zzC0607Exposure(false) }

// two rules in one policy: an entire-cluster rule next to a selector rule, each with its own port shape (numbers or
// one of two port names): the entry of the selector rule may be dropped only when the entire-cluster entry covers it
func ZZ_C06_C07_TwoRules() { zzC0607Exposure(true) }

func zzC0607Exposure(twoRules bool) {
	g := zzBaseWorld(true, twoRules || vf_Choose("nsObjs", 2) == 1)
	g.ConcreteIP = true
	ing := vf_Choose("dir", 2) == 0
	np := zzNetpolObj("ns1", "np1", netv1.NetworkPolicySpec{PodSelector: metav1.LabelSelector{MatchLabels: map[string]string{"app": "a"}}}).NetworkPolicy
	nRules := 1
	if vf_Tier() > 0 {
		nRules = 1 + vf_Choose("nrules", 2)
	}
	if twoRules {
		nRules = 2
	}
	for r := 0; r < nRules; r++ {
		rn := []string{"r0", "r1"}[r]
		var peers []netv1.NetworkPolicyPeer
		var ports []netv1.NetworkPolicyPort
		if twoRules {
			if r == 0 { // entire cluster, or a pod selector in the policy's namespace (no namespace selector)
				peers = zzExpPeers(g, []int{4, 2}[vf_Choose(rn+".peers", 2)])
				ports = zzPortsMenu(rn, []int{1, 5}[vf_Choose(rn+".ports", 2)])
			} else { // selector peers, with and without a namespace selector, some on the same pod labels as r0's
				peers = zzExpPeers(g, []int{2, 3, 5, 9}[vf_Choose(rn+".peers", 4)])
				ports = zzPortsMenu(rn, []int{0, 1, 3}[vf_Choose(rn+".ports", 3)])
			}
		} else {
			peers = zzExpPeers(g, vf_Choose(rn+".peers", zzNExpPeers))
			ports = zzPortsMenu(rn, vf_Choose(rn+".ports", 4))
		}
		if ing {
			np.Spec.Ingress = append(np.Spec.Ingress, netv1.NetworkPolicyIngressRule{From: peers, Ports: ports})
		} else {
			np.Spec.Egress = append(np.Spec.Egress, netv1.NetworkPolicyEgressRule{To: peers, Ports: ports})
			np.Spec.PolicyTypes = []netv1.PolicyType{netv1.PolicyTypeEgress}
		}
	}
	g.addNP(np)
	x := zzProbeX()
	plain, _, err := NewConnlistAnalyzer(WithMuteErrsAndWarns()).connsListFromParsedResources(g.Objs)
	if err != nil {
		return // named port towards an IP destination: the documented fatal error (C01)
	}
	ca := NewConnlistAnalyzer(WithMuteErrsAndWarns(), WithExposureAnalysis())
	conns, _, err := ca.connsListFromParsedResources(g.Objs)
	vf_Assert(err == nil, "exposure-analysis-succeeds-where-list-does")
	if err != nil {
		return
	}
	// (C06) base connectivity untouched
	pm, _ := zzConnMap(plain)
	em, _ := zzConnMap(conns)
	vf_Assert(len(pm) == len(em), "exposure-same-pairs")
	for k, cs := range pm {
		e, ok := em[k]
		vf_Assert(ok, "exposure-same-pairs")
		if ok {
			vf_Assert(zzSameDen(cs, e, x), "exposure-same-connections")
		}
	}
	// the exposure record of workload a
	var rec ExposedPeer
	for _, ep := range ca.ExposedPeers() {
		if ep.ExposedPeer().String() == "ns1/a[Deployment]" {
			rec = ep
		}
	}
	vf_Assert(rec != nil, "workload-has-exposure-record")
	if rec == nil {
		return
	}
	a := g.pod("ns1", "a")
	// (C06) protected flags
	govIn, _ := g.W.zzNPDir(a, zzEnd{Pod: g.pod("ns1", "b")}, true, corev1.ProtocolTCP, x, a, g.Book)
	govEg, _ := g.W.zzNPDir(a, zzEnd{Pod: g.pod("ns1", "b")}, false, corev1.ProtocolTCP, x, g.pod("ns1", "b"), g.Book)
	vf_Assert(rec.IsProtectedByIngressNetpols() == govIn, "protected-flag-ingress")
	vf_Assert(rec.IsProtectedByEgressNetpols() == govEg, "protected-flag-egress")
	// hypothetical pod
	real := append([]*zzWPod{}, g.W.Pods...)
	w := zzGenHyp(g)
	h := w.Pods[len(w.Pods)-1]
	var entries []XgressExposureData
	var dst, named *zzWPod
	if ing {
		entries = rec.IngressExposure()
		dst = a
		named = a
	} else {
		entries = rec.EgressExposure()
		dst = h
		named = h
	}
	hNs := w.nsLabels(h.Ns)
	for _, proto := range zzProtos3 {
		_, allowed := w.zzNPDir(a, zzEnd{Pod: h}, ing, proto, x, dst, g.Book)
		covered := false
		for _, e := range entries {
			match := e.IsExposedToEntireCluster()
			if !match {
				nsl, pl := e.NamespaceLabels(), e.PodLabels()
				match = zzSelMatches(&nsl, hNs) && zzSelMatches(&pl, h.Labels)
			}
			if !match {
				continue
			}
			c := zzEntryCovers(e.PotentialConnectivity(), proto, x, named)
			// (C06) soundness: a reported entry whose selectors H satisfies is realizable
			vf_Assert(vf_Implies(c, allowed), "exposure-entry-sound")
			covered = vf_Or(covered, c)
		}
		// (C07) completeness, up to the documented omission
		omitted := false
		rulePeers := func(peers []netv1.NetworkPolicyPeer, ports []netv1.NetworkPolicyPort) {
			for i := range peers {
				if zzOmittedPeer(g.W, np, &peers[i], real) {
					one := []netv1.NetworkPolicyPeer{peers[i]}
					omitted = vf_Or(omitted, vf_And(w.npPeerMatch(np, one, zzEnd{Pod: h}, g.Book), zzNPPortMatch(ports, proto, x, dst)))
				}
			}
		}
		for i := range np.Spec.Ingress {
			if ing {
				rulePeers(np.Spec.Ingress[i].From, np.Spec.Ingress[i].Ports)
			}
		}
		for i := range np.Spec.Egress {
			if !ing {
				rulePeers(np.Spec.Egress[i].To, np.Spec.Egress[i].Ports)
			}
		}
		vf_Assert(vf_Implies(allowed, vf_Or(covered, omitted)), "exposure-complete")
	}
	vf_Observe("entries", len(entries))
}

// C06: exposure analysis must succeed wherever the plain list does — also for a policy in a namespace
// that has no workloads (and no Namespace object)
func ZZ_C06_PolicyInOtherNamespace() {
	g := zzBaseWorld(true, vf_Choose("nsObjs", 2) == 1)
	g.ConcreteIP = true
	ns := []string{"ns2", "ns3"}[vf_Choose("np.ns", 2)]
	np := zzNetpolObj(ns, "np1", netv1.NetworkPolicySpec{}).NetworkPolicy
	peers := zzExpPeers(g, vf_Choose("r0.peers", zzNExpPeers))
	ports := zzPortsMenu("r0", vf_Choose("r0.ports", 3))
	if vf_Choose("dir", 2) == 0 {
		np.Spec.Ingress = []netv1.NetworkPolicyIngressRule{{From: peers, Ports: ports}}
	} else {
		np.Spec.Egress = []netv1.NetworkPolicyEgressRule{{To: peers, Ports: ports}}
	}
	g.addNP(np)
	x := zzProbeX()
	plain, _, err := NewConnlistAnalyzer(WithMuteErrsAndWarns()).connsListFromParsedResources(g.Objs)
	if err != nil {
		return
	}
	ca := NewConnlistAnalyzer(WithMuteErrsAndWarns(), WithExposureAnalysis())
	conns, _, err := ca.connsListFromParsedResources(g.Objs)
	vf_Assert(err == nil, "exposure-analysis-succeeds-where-list-does")
	if err != nil {
		return
	}
	pm, _ := zzConnMap(plain)
	em, _ := zzConnMap(conns)
	vf_Assert(len(pm) == len(em), "exposure-same-pairs")
	for k, cs := range pm {
		e, ok := em[k]
		vf_Assert(ok, "exposure-same-pairs")
		if ok {
			vf_Assert(zzSameDen(cs, e, x), "exposure-same-connections")
		}
	}
}

// C06/C07 with two policies sharing workloads: p1 selects every pod of ns1, p2 only app=a; both expose to the
// entire cluster on (different, symbolic) TCP ports. Each workload's entries must reflect its own policies.
func ZZ_C06_C07_TwoPolicies() {
	g := zzBaseWorld(true, true)
	ing := vf_Choose("dir", 2) == 0
	mk := func(name string, sel metav1.LabelSelector, port int32) *netv1.NetworkPolicy {
		np := zzNetpolObj("ns1", name, netv1.NetworkPolicySpec{PodSelector: sel}).NetworkPolicy
		peers := []netv1.NetworkPolicyPeer{{NamespaceSelector: &metav1.LabelSelector{}}}
		ports := []netv1.NetworkPolicyPort{zzPortNum(corev1.ProtocolTCP, port)}
		if ing {
			np.Spec.Ingress = []netv1.NetworkPolicyIngressRule{{From: peers, Ports: ports}}
		} else {
			np.Spec.Egress = []netv1.NetworkPolicyEgressRule{{To: peers, Ports: ports}}
			np.Spec.PolicyTypes = []netv1.PolicyType{netv1.PolicyTypeEgress}
		}
		return np
	}
	x1, x2 := zzPortVar("p1.port"), zzPortVar("p2.port")
	first := vf_Choose("order", 2)
	p1 := mk("p1", metav1.LabelSelector{}, x1)
	p2 := mk("p2", metav1.LabelSelector{MatchLabels: map[string]string{"app": "a"}}, x2)
	if first == 0 {
		g.addNP(p1)
		g.addNP(p2)
	} else {
		g.addNP(p2)
		g.addNP(p1)
	}
	x := zzProbeX()
	ca := NewConnlistAnalyzer(WithMuteErrsAndWarns(), WithExposureAnalysis())
	_, _, err := ca.connsListFromParsedResources(g.Objs)
	vf_Assert(err == nil, "exposure-analysis-succeeds")
	if err != nil {
		return
	}
	zzC07CheckWorkloads(g, ca, ing, x, [][2]string{{"ns1", "a"}, {"ns1", "b"}})
}

// zzC07CheckWorkloads: soundness and completeness of the exposure entries of the named workloads against every
// hypothetical pod of zzGenHyp
func zzC07CheckWorkloads(g *zzGen, ca *ConnlistAnalyzer, ing bool, x int64, workloads [][2]string) {
	w := zzGenHyp(g)
	h := w.Pods[len(w.Pods)-1]
	hNs := w.nsLabels(h.Ns)
	for _, wl := range workloads {
		var rec ExposedPeer
		for _, ep := range ca.ExposedPeers() {
			if ep.ExposedPeer().String() == wl[0]+"/"+wl[1]+"[Deployment]" {
				rec = ep
			}
		}
		vf_Assert(rec != nil, "workload-has-exposure-record")
		if rec == nil {
			continue
		}
		self := g.pod(wl[0], wl[1])
		entries := rec.IngressExposure()
		dst, named := self, self
		if !ing {
			entries = rec.EgressExposure()
			dst, named = h, h
		}
		for _, proto := range zzProtos3 {
			_, allowed := w.zzNPDir(self, zzEnd{Pod: h}, ing, proto, x, dst, g.Book)
			covered := false
			for _, e := range entries {
				match := e.IsExposedToEntireCluster()
				if !match {
					nsl, pl := e.NamespaceLabels(), e.PodLabels()
					match = zzSelMatches(&nsl, hNs) && zzSelMatches(&pl, h.Labels)
				}
				if !match {
					continue
				}
				c := zzEntryCovers(e.PotentialConnectivity(), proto, x, named)
				vf_Assert(vf_Implies(c, allowed), "exposure-entry-sound")
				covered = vf_Or(covered, c)
			}
			vf_Assert(vf_Implies(allowed, covered), "exposure-complete")
		}
	}
}

// the same rule text in policies of different namespaces: a rule without namespaceSelector means the policy's own
// namespace, so the two rules are different requirements and each needs its own exposure entry
func ZZ_C06_C07_SameRuleTwoNamespaces() {
	g := zzBaseWorld(true, true)
	ing := vf_Choose("dir", 2) == 0
	peersOf := func(k int) []netv1.NetworkPolicyPeer {
		switch k {
		case 1: // any namespace, app=q
			return []netv1.NetworkPolicyPeer{{NamespaceSelector: &metav1.LabelSelector{}, PodSelector: zzSel("app", "q")}}
		case 2: // the policy's namespace, app=other
			return []netv1.NetworkPolicyPeer{{PodSelector: zzSel("app", "other")}}
		}
		return []netv1.NetworkPolicyPeer{{PodSelector: zzSel("app", "q")}} // the policy's namespace, app=q
	}
	mk := func(ns, name string, peers []netv1.NetworkPolicyPeer, port int32) *netv1.NetworkPolicy {
		np := zzNetpolObj(ns, name, netv1.NetworkPolicySpec{PodSelector: metav1.LabelSelector{MatchLabels: map[string]string{"app": "a"}}}).NetworkPolicy
		ports := []netv1.NetworkPolicyPort{zzPortNum(corev1.ProtocolTCP, port)}
		if ing {
			np.Spec.Ingress = []netv1.NetworkPolicyIngressRule{{From: peers, Ports: ports}}
		} else {
			np.Spec.Egress = []netv1.NetworkPolicyEgressRule{{To: peers, Ports: ports}}
			np.Spec.PolicyTypes = []netv1.PolicyType{netv1.PolicyTypeEgress}
		}
		return np
	}
	x1, x2 := zzPortVar("p1.port"), zzPortVar("p2.port")
	p1 := mk("ns1", "p1", peersOf(vf_Choose("p1.peers", 3)), x1)
	p2 := mk("ns2", "p2", peersOf(vf_Choose("p2.peers", 3)), x2)
	if vf_Choose("order", 2) == 0 {
		g.addNP(p1)
		g.addNP(p2)
	} else {
		g.addNP(p2)
		g.addNP(p1)
	}
	x := zzProbeX()
	ca := NewConnlistAnalyzer(WithMuteErrsAndWarns(), WithExposureAnalysis())
	_, _, err := ca.connsListFromParsedResources(g.Objs)
	vf_Assert(err == nil, "exposure-analysis-succeeds")
	if err != nil {
		return
	}
	zzC07CheckWorkloads(g, ca, ing, x, [][2]string{{"ns1", "a"}, {"ns2", "c"}})
}

// one policy selecting two workloads that declare the same port name with different numbers, exposed to the whole
// cluster (or to a representative peer) on that name: each workload's entry must carry its own number
func ZZ_C06_C07_NamedPortTwoWorkloads() {
	g := &zzGen{W: &zzWorld{}, Book: &zzCidrBook{}}
	h1, h2 := zzPortVar("a.http"), zzPortVar("b.http")
	g.addPod("ns1", "a", map[string]string{"app": "a"}, []corev1.ContainerPort{{Name: "http", ContainerPort: h1, Protocol: corev1.ProtocolTCP}})
	g.addPod("ns1", "b", map[string]string{"app": "b"}, []corev1.ContainerPort{{Name: "http", ContainerPort: h2, Protocol: corev1.ProtocolTCP}})
	g.addNs("ns1", map[string]string{"env": "prod"})
	var peers []netv1.NetworkPolicyPeer
	switch vf_Choose("peers", 3) {
	case 0:
		peers = []netv1.NetworkPolicyPeer{{NamespaceSelector: &metav1.LabelSelector{}}}
	case 1:
		peers = []netv1.NetworkPolicyPeer{{NamespaceSelector: &metav1.LabelSelector{}, PodSelector: zzSel("app", "q")}}
	}
	np := zzNetpolObj("ns1", "np1", netv1.NetworkPolicySpec{PodSelector: metav1.LabelSelector{},
		Ingress: []netv1.NetworkPolicyIngressRule{{From: peers, Ports: []netv1.NetworkPolicyPort{zzPortName(corev1.ProtocolTCP, "http")}}}}).NetworkPolicy
	g.addNP(np)
	x := zzProbeX()
	ca := NewConnlistAnalyzer(WithMuteErrsAndWarns(), WithExposureAnalysis())
	_, _, err := ca.connsListFromParsedResources(g.Objs)
	vf_Assert(err == nil, "exposure-analysis-succeeds")
	if err != nil {
		return
	}
	zzC07CheckWorkloads(g, ca, true, x, [][2]string{{"ns1", "a"}, {"ns1", "b"}})
}
