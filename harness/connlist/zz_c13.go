package connlist

import (
	corev1 "k8s.io/api/core/v1"
	netv1 "k8s.io/api/networking/v1"
	metav1 "k8s.io/apimachinery/pkg/apis/meta/v1"
	"k8s.io/apimachinery/pkg/apis/meta/v1/unstructured"
	"k8s.io/apimachinery/pkg/runtime"
	"k8s.io/cli-runtime/pkg/resource"

	"github.com/np-guard/netpol-analyzer/pkg/manifests/parser"
)

// zzInfo: a resource.Info for a typed object. Under symgo the (reflection based) unstructured conversion
// is an environment stub that hands back the registered typed object; natively the real converter is
// used in both directions.
func zzInfo(kind, apiVersion string, typed interface{}) *resource.Info {
	var content map[string]interface{}
	if vf_Symbolic() {
		content = map[string]interface{}{"kind": kind, "apiVersion": apiVersion, "zz_typed": typed}
	} else {
		c, err := runtime.DefaultUnstructuredConverter.ToUnstructured(typed)
		if err != nil {
			panic(err)
		}
		c["kind"], c["apiVersion"] = kind, apiVersion
		content = c
	}
	return &resource.Info{Source: kind + ".yaml", Object: &unstructured.Unstructured{Object: content}}
}

func zzInfosOf(objs []parser.K8sObject) []*resource.Info {
	var infos []*resource.Info
	for i := range objs {
		o := &objs[i]
		switch o.Kind {
		case parser.Namespace:
			infos = append(infos, zzInfo(o.Kind, "v1", o.Namespace))
		case parser.Deployment:
			infos = append(infos, zzInfo(o.Kind, "apps/v1", o.Deployment))
		case parser.NetworkPolicy:
			infos = append(infos, zzInfo(o.Kind, "networking.k8s.io/v1", o.NetworkPolicy))
		case parser.Pod:
			infos = append(infos, zzInfo(o.Kind, "v1", o.Pod))
		}
	}
	return infos
}

// bad / irrelevant documents
func zzBadInfo(k int) (info *resource.Info, severe bool) {
	switch k {
	case 0: // a kind the analysis does not use
		return &resource.Info{Source: "cm.yaml", Object: &unstructured.Unstructured{Object: map[string]interface{}{"kind": "ConfigMap", "apiVersion": "v1",
			"metadata": map[string]interface{}{"name": "cm", "namespace": "ns1"}}}}, false
	case 1: // not an unstructured object at all
		return &resource.Info{Source: "typed.yaml", Object: &corev1.Pod{}}, true
	default: // a used kind that fails schema conversion
		content := map[string]interface{}{"kind": "NetworkPolicy", "apiVersion": "networking.k8s.io/v1",
			"metadata": map[string]interface{}{"name": "broken", "namespace": "ns1"}}
		if vf_Symbolic() {
			content["zz_fail"] = true
		} else {
			content["spec"] = "not-an-object" // the real converter rejects a string where a struct is expected
		}
		return &resource.Info{Source: "broken.yaml", Object: &unstructured.Unstructured{Object: content}}, true
	}
}

func zzInsertInfo(infos []*resource.Info, pos int, x *resource.Info) []*resource.Info {
	res := make([]*resource.Info, 0, len(infos)+1)
	res = append(res, infos[:pos]...)
	res = append(res, x)
	return append(res, infos[pos:]...)
}

// C13: irrelevant / malformed documents never change the connections; each malformed one is a severe error;
// stop-on-first-error yields no connections
func ZZ_C13_BadDocuments() {
	p, e := zzPortVar("np.p"), zzPortVar("np.e")
	vf_Assume(p <= e)
	x := zzProbeX()
	good := []parser.K8sObject{
		zzNsObj("ns1", nil),
		zzDeployObj("ns1", "a", map[string]string{"app": "a"}, nil),
		zzDeployObj("ns1", "b", map[string]string{"app": "b"}, nil),
		zzNetpolObj("ns1", "np1", netv1.NetworkPolicySpec{
			PodSelector: metav1.LabelSelector{MatchLabels: map[string]string{"app": "a"}},
			Ingress: []netv1.NetworkPolicyIngressRule{{From: []netv1.NetworkPolicyPeer{{PodSelector: zzSel("app", "b")}},
				Ports: []netv1.NetworkPolicyPort{zzPortRange(corev1.ProtocolTCP, p, e)}}},
		}),
	}
	base, _, err := NewConnlistAnalyzer(WithMuteErrsAndWarns()).ConnlistFromResourceInfos(zzInfosOf(good))
	vf_Assert(err == nil, "clean-input-analysed")
	infos := zzInfosOf(good)
	nbad := vf_Choose("nbad", 3)
	nsevere := 0
	for i := 0; i < nbad; i++ {
		bi, sev := zzBadInfo(vf_Choose([]string{"bad0", "bad1"}[i], 3))
		if sev {
			nsevere++
		}
		infos = zzInsertInfo(infos, vf_Choose([]string{"pos0", "pos1"}[i], len(infos)+1), bi)
	}
	stop := vf_Choose("stop", 2) == 1
	opts := []ConnlistAnalyzerOption{WithMuteErrsAndWarns()}
	if stop {
		opts = append(opts, WithStopOnError())
	}
	ca := NewConnlistAnalyzer(opts...)
	conns, _, err := ca.ConnlistFromResourceInfos(infos)
	sev := 0
	for _, ce := range ca.Errors() {
		if ce.IsSevere() {
			sev++
		}
		vf_Assert(!ce.IsFatal(), "no-fatal-error")
	}
	vf_Assert(sev == nsevere, "each-malformed-document-is-a-severe-error")
	if stop && nsevere > 0 {
		vf_Assert(err != nil || len(conns) == 0, "stop-on-error-yields-no-connections")
		return
	}
	vf_Assert(err == nil, "analysis-continues")
	bm, _ := zzConnMap(base)
	gm, _ := zzConnMap(conns)
	vf_Assert(len(bm) == len(gm), "same-pairs")
	for k, cs := range bm {
		g, ok := gm[k]
		vf_Assert(ok, "same-pairs")
		if ok {
			vf_Assert(zzSameDen(cs, g, x), "same-connections")
		}
	}
	vf_Observe("sev", sev)
}
