package connlist

import (
	corev1 "k8s.io/api/core/v1"
	netv1 "k8s.io/api/networking/v1"
	metav1 "k8s.io/apimachinery/pkg/apis/meta/v1"

	"github.com/np-guard/netpol-analyzer/pkg/manifests/parser"
)

// C13: irrelevant / malformed documents never change the connections; each malformed one is a severe error;
// stop-on-first-error yields no connections
func ZZ_C13_BadDocuments() {
	p, e := zzPortVar("np.p"), zzPortVar("np.e")
	vf_Assume(p <= e)
	x := zzProbeX()
	good := []parser.K8sObject{
		zzNsObj("ns1", nil),
		zzDeployObj("ns1", "a", map[string]string{"app": "a"}, nil),
		zzDeployObj("ns1", "b", map[string]string{"app": "b"}, nil),
		zzNetpolObj("ns1", "np1", netv1.NetworkPolicySpec{
			PodSelector: metav1.LabelSelector{MatchLabels: map[string]string{"app": "a"}},
			Ingress: []netv1.NetworkPolicyIngressRule{{From: []netv1.NetworkPolicyPeer{{PodSelector: zzSel("app", "b")}},
				Ports: []netv1.NetworkPolicyPort{zzPortRange(corev1.ProtocolTCP, p, e)}}},
		}),
	}
	base, _, err := NewConnlistAnalyzer(WithMuteErrsAndWarns()).ConnlistFromResourceInfos(zzInfosOf(good))
	vf_Assert(err == nil, "clean-input-analysed")
	infos := zzInfosOf(good)
	nbad := vf_Choose("nbad", 3)
	nsevere := 0
	for i := 0; i < nbad; i++ {
		bi, sev := zzBadInfo(vf_Choose([]string{"bad0", "bad1"}[i], 3))
		if sev {
			nsevere++
		}
		infos = zzInsertInfo(infos, vf_Choose([]string{"pos0", "pos1"}[i], len(infos)+1), bi)
	}
	// optionally a document the analysis cannot survive (a policy whose ipBlock is not a CIDR), after the others
	fatal := vf_Choose("fatal", 2) == 1
	if fatal {
		infos = append(infos, zzC13Fatal())
	}
	stop := vf_Choose("stop", 2) == 1
	opts := []ConnlistAnalyzerOption{WithMuteErrsAndWarns()}
	if stop {
		opts = append(opts, WithStopOnError())
	}
	ca := NewConnlistAnalyzer(opts...)
	conns, _, err := ca.ConnlistFromResourceInfos(infos)
	sev, fat := 0, 0
	for _, ce := range ca.Errors() {
		if ce.IsSevere() {
			sev++
		}
		if ce.IsFatal() {
			fat++
		}
	}
	if stop && nsevere > 0 {
		vf_Assert(sev >= 1, "each-malformed-document-is-a-severe-error")
		vf_Assert(err != nil || len(conns) == 0, "stop-on-error-yields-no-connections")
		return
	}
	vf_Assert(sev == nsevere, "each-malformed-document-is-a-severe-error")
	if fatal {
		vf_Assert(err != nil, "fatal-error-yields-an-error")
		vf_Assert(len(conns) == 0, "fatal-error-yields-no-result")
		vf_Assert(fat >= 1, "fatal-error-recorded")
		return
	}
	vf_Assert(fat == 0, "no-fatal-error")
	vf_Assert(err == nil, "analysis-continues")
	bm, _ := zzConnMap(base)
	gm, _ := zzConnMap(conns)
	vf_Assert(len(bm) == len(gm), "same-pairs")
	for k, cs := range bm {
		g, ok := gm[k]
		vf_Assert(ok, "same-pairs")
		if ok {
			vf_Assert(zzSameDen(cs, g, x), "same-connections")
		}
	}
	vf_Observe("sev", sev)
}

// C13 through ConnlistFromDirPath: the scanner is environment (under symgo an in-memory directory, natively real
// files in a temporary directory). Documents: the good ones, at most one irrelevant / schema-broken document and
// at most one syntactically broken file, each at any position; stopOnError on/off.
func ZZ_C13_DirPath() {
	p, e := zzPortVar("np.p"), zzPortVar("np.e")
	vf_Assume(p <= e)
	x := zzProbeX()
	good := []parser.K8sObject{
		zzNsObj("ns1", nil),
		zzDeployObj("ns1", "a", map[string]string{"app": "a"}, nil),
		zzDeployObj("ns1", "b", map[string]string{"app": "b"}, nil),
		zzNetpolObj("ns1", "np1", netv1.NetworkPolicySpec{
			PodSelector: metav1.LabelSelector{MatchLabels: map[string]string{"app": "a"}},
			Ingress: []netv1.NetworkPolicyIngressRule{{From: []netv1.NetworkPolicyPeer{{PodSelector: zzSel("app", "b")}},
				Ports: []netv1.NetworkPolicyPort{zzPortRange(corev1.ProtocolTCP, p, e)}}},
		}),
	}
	base, _, err := NewConnlistAnalyzer(WithMuteErrsAndWarns()).ConnlistFromResourceInfos(zzInfosOf(good))
	vf_Assert(err == nil, "clean-input-analysed")
	infos := zzInfosOf(good)
	nsevere := 0
	switch vf_Choose("bad", 3) {
	case 1: // a kind the analysis does not use
		bi, _ := zzBadInfo(0)
		infos = zzInsertInfo(infos, vf_Choose("pos", len(infos)+1), bi)
	case 2: // a used kind that fails schema conversion
		bi, _ := zzBadInfo(2)
		infos = zzInsertInfo(infos, vf_Choose("pos", len(infos)+1), bi)
		nsevere++
	}
	var badAt []int
	if vf_Choose("broken", 2) == 1 {
		badAt = []int{vf_Choose("broken.pos", len(infos)+1)}
		nsevere++
	}
	// file placement: one of the documents may sit in a sub-directory
	var nested []int
	if k := vf_Choose("nested", len(infos)+1); k > 0 {
		nested = []int{k - 1}
	}
	dir := vf_RegisterDir("c13", infos, badAt, nested)
	stop := vf_Choose("stop", 2) == 1
	opts := []ConnlistAnalyzerOption{WithMuteErrsAndWarns()}
	if stop {
		opts = append(opts, WithStopOnError())
	}
	ca := NewConnlistAnalyzer(opts...)
	conns, _, err := ca.ConnlistFromDirPath(dir)
	sev := 0
	for _, ce := range ca.Errors() {
		if ce.IsSevere() {
			sev++
		}
		vf_Assert(!ce.IsFatal(), "no-fatal-error")
	}
	if stop && nsevere > 0 {
		vf_Assert(sev >= 1, "each-malformed-document-is-a-severe-error")
		vf_Assert(err != nil || len(conns) == 0, "stop-on-error-yields-no-connections")
		return
	}
	vf_Assert(sev == nsevere, "each-malformed-document-is-a-severe-error")
	vf_Assert(err == nil, "analysis-continues")
	bm, _ := zzConnMap(base)
	gm, _ := zzConnMap(conns)
	vf_Assert(len(bm) == len(gm), "same-pairs")
	for k, cs := range bm {
		g, ok := gm[k]
		vf_Assert(ok, "same-pairs")
		if ok {
			vf_Assert(zzSameDen(cs, g, x), "same-connections")
		}
	}
	vf_Observe("sev", sev)
	vf_Observe("pairs", len(gm))
}
