package shared

// Generators of small worlds: the structure (which pods, which rule shapes) is chosen with
// vf_Choose (explored exhaustively inside the bound), the numeric content (ports, CIDR bits,
// priorities) is symbolic.

import (
	"fmt"

	corev1 "k8s.io/api/core/v1"
	netv1 "k8s.io/api/networking/v1"
	metav1 "k8s.io/apimachinery/pkg/apis/meta/v1"
	apisv1a "sigs.k8s.io/network-policy-api/apis/v1alpha1"

	"github.com/np-guard/netpol-analyzer/pkg/manifests/parser"
)

type zzGen struct {
	W          *zzWorld
	Objs       []parser.K8sObject
	Book       *zzCidrBook
	ConcreteIP bool // ipBlock peers use fixed CIDRs (harnesses that need concrete peer names)
	BarePods   bool // workloads are Pod manifests (the eval command addresses pods by name) instead of Deployments
}

func zzPortVar(name string) int32 {
	p := vf_Int32N(name, 17)
	vf_Assume(vf_And(p >= 1, p <= 65535))
	return p
}

// zzBaseWorld: pods a,b in ns1 and (optionally) c in ns2; with or without Namespace objects.
// Pod a declares the container ports http (TCP, symbolic number) and dns (UDP 53).
func zzBaseWorld(withC, nsObjs bool) *zzGen { return zzBaseWorldK(withC, nsObjs, false) }

func zzBaseWorldK(withC, nsObjs, barePods bool) *zzGen {
	g := &zzGen{W: &zzWorld{}, Book: &zzCidrBook{}, BarePods: barePods}
	hp := zzPortVar("a.http")
	aPorts := []corev1.ContainerPort{{Name: "http", ContainerPort: hp, Protocol: corev1.ProtocolTCP}, {Name: "dns", ContainerPort: 53, Protocol: corev1.ProtocolUDP}}
	g.addPod("ns1", "a", map[string]string{"app": "a"}, aPorts)
	g.addPod("ns1", "b", map[string]string{"app": "b"}, nil)
	if withC {
		g.addPod("ns2", "c", map[string]string{"app": "a"}, nil)
	}
	if nsObjs {
		g.addNs("ns1", map[string]string{"env": "prod", "tier": "restricted"})
		if withC {
			g.addNs("ns2", map[string]string{"env": "dev"})
		}
	} else {
		g.W.Nss = append(g.W.Nss, zzWNs{Name: "ns1"})
		if withC {
			g.W.Nss = append(g.W.Nss, zzWNs{Name: "ns2"})
		}
	}
	return g
}

func (g *zzGen) addPod(ns, name string, labels map[string]string, ports []corev1.ContainerPort) *zzWPod {
	p := &zzWPod{Ns: ns, Name: name, Labels: labels, Ports: ports}
	g.W.Pods = append(g.W.Pods, p)
	if g.BarePods {
		g.Objs = append(g.Objs, zzPodObj(ns, name, labels, ports, ""))
		return p
	}
	g.Objs = append(g.Objs, zzDeployObj(ns, name, labels, ports))
	return p
}

func (g *zzGen) addNs(name string, labels map[string]string) {
	g.W.Nss = append(g.W.Nss, zzWNs{Name: name, Labels: labels, HasObj: true})
	g.Objs = append(g.Objs, zzNsObj(name, labels))
}

func (g *zzGen) addNP(np *netv1.NetworkPolicy) {
	g.W.NPs = append(g.W.NPs, np)
	g.Objs = append(g.Objs, parser.K8sObject{Kind: parser.NetworkPolicy, NetworkPolicy: np})
}

func (g *zzGen) pod(ns, name string) *zzWPod {
	for _, p := range g.W.Pods {
		if p.Ns == ns && p.Name == name {
			return p
		}
	}
	return nil
}

// ---- NetworkPolicy menus ----------------------------------------------------------------------

const (
	zzNSel   = 3
	zzNTypes = 4
	zzNPeers = 5
	zzNPorts = 5
)

func zzSelMenu(k int) metav1.LabelSelector {
	switch k {
	case 1:
		return metav1.LabelSelector{MatchLabels: map[string]string{"app": "a"}}
	case 2:
		return metav1.LabelSelector{MatchExpressions: []metav1.LabelSelectorRequirement{{Key: "app", Operator: metav1.LabelSelectorOpNotIn, Values: []string{"a", "z"}}}}
	case 3:
		return metav1.LabelSelector{MatchExpressions: []metav1.LabelSelectorRequirement{{Key: "app", Operator: metav1.LabelSelectorOpIn, Values: []string{"a"}}}}
	case 4:
		return metav1.LabelSelector{MatchExpressions: []metav1.LabelSelectorRequirement{{Key: "tier", Operator: metav1.LabelSelectorOpDoesNotExist}}}
	case 5:
		return metav1.LabelSelector{MatchExpressions: []metav1.LabelSelectorRequirement{{Key: "app", Operator: metav1.LabelSelectorOpExists}}, MatchLabels: map[string]string{"app": "b"}}
	}
	return metav1.LabelSelector{}
}

func zzTypesMenu(k int) []netv1.PolicyType {
	switch k {
	case 1:
		return []netv1.PolicyType{netv1.PolicyTypeIngress}
	case 2:
		return []netv1.PolicyType{netv1.PolicyTypeEgress}
	case 3:
		return []netv1.PolicyType{netv1.PolicyTypeIngress, netv1.PolicyTypeEgress}
	}
	return nil
}

// zzPeersMenu: the peer list of a rule
func (g *zzGen) zzPeersMenu(name string, k int) []netv1.NetworkPolicyPeer {
	switch k {
	case 1:
		return []netv1.NetworkPolicyPeer{{PodSelector: zzSel("app", "b")}}
	case 2:
		return []netv1.NetworkPolicyPeer{{NamespaceSelector: zzSel(zzNsNameLabel, "ns2"), PodSelector: &metav1.LabelSelector{}}}
	case 3:
		return []netv1.NetworkPolicyPeer{{NamespaceSelector: zzSel("env", "prod")}}
	case 4:
		if g.ConcreteIP {
			return []netv1.NetworkPolicyPeer{{IPBlock: &netv1.IPBlock{CIDR: "10.0.0.0/8", Except: []string{"10.1.0.0/16"}}}}
		}
		blk := &netv1.IPBlock{CIDR: g.Book.New(name + ".cidr")}
		c := g.Book.last()
		if vf_Choose(name+".nex", 2) == 1 {
			ex := g.Book.New(name + ".ex")
			vf_Assume(zzCidrInside(g.Book.last(), c))
			blk.Except = []string{ex}
		}
		return []netv1.NetworkPolicyPeer{{IPBlock: blk}}
	}
	return nil
}

// zzPortsMenu: the port list of a rule
func zzPortsMenu(name string, k int) []netv1.NetworkPolicyPort {
	switch k {
	case 1:
		p, e := zzPortVar(name+".p"), zzPortVar(name+".e")
		vf_Assume(p <= e)
		return []netv1.NetworkPolicyPort{zzPortRange(corev1.ProtocolTCP, p, e)}
	case 2:
		return []netv1.NetworkPolicyPort{{Protocol: zzProtoPtr(corev1.ProtocolUDP)}}
	case 3:
		return []netv1.NetworkPolicyPort{zzPortName(corev1.ProtocolTCP, "http")}
	case 4:
		return []netv1.NetworkPolicyPort{zzPortNum(corev1.ProtocolSCTP, zzPortVar(name+".s")), {Port: zzIntStrPtr(zzPortVar(name + ".t"))}}
	case 5: // a second port name (no generated pod declares it)
		return []netv1.NetworkPolicyPort{zzPortName(corev1.ProtocolTCP, "metrics")}
	}
	return nil
}

// zzGenNP: one policy from the menus. dirs: 0 no rules, 1 one ingress rule, 2 one egress rule,
// 3 one rule in each direction.
func (g *zzGen) zzGenNP(name, ns string, allowBothDirs bool) *netv1.NetworkPolicy {
	return g.zzGenNPx(name, ns, allowBothDirs, false)
}

// reduced: selector {all, app=a} and policyTypes {absent, [Ingress,Egress]} only
func (g *zzGen) zzGenNPx(name, ns string, allowBothDirs, reduced bool) *netv1.NetworkPolicy {
	np := &netv1.NetworkPolicy{
		TypeMeta:   metav1.TypeMeta{Kind: "NetworkPolicy", APIVersion: "networking.k8s.io/v1"},
		ObjectMeta: metav1.ObjectMeta{Name: name, Namespace: ns},
	}
	if reduced {
		np.Spec.PodSelector = zzSelMenu(vf_Choose(name+".sel", 2))
		np.Spec.PolicyTypes = zzTypesMenu(3 * vf_Choose(name+".types", 2))
	} else {
		np.Spec.PodSelector = zzSelMenu(vf_Choose(name+".sel", zzNSel))
		np.Spec.PolicyTypes = zzTypesMenu(vf_Choose(name+".types", zzNTypes))
	}
	nd := 3
	if allowBothDirs {
		nd = 4
	}
	dirs := vf_Choose(name+".dirs", nd)
	if dirs == 1 || dirs == 3 {
		rn := name + ".in"
		np.Spec.Ingress = []netv1.NetworkPolicyIngressRule{{
			From:  g.zzPeersMenu(rn, vf_Choose(rn+".peers", zzNPeers)),
			Ports: zzPortsMenu(rn, vf_Choose(rn+".ports", zzNPorts)),
		}}
	}
	if dirs == 2 || dirs == 3 {
		rn := name + ".eg"
		np.Spec.Egress = []netv1.NetworkPolicyEgressRule{{
			To:    g.zzPeersMenu(rn, vf_Choose(rn+".peers", zzNPeers)),
			Ports: zzPortsMenu(rn, vf_Choose(rn+".ports", zzNPorts)),
		}}
	}
	return np
}

// zzGenNPTiny: selects every pod of the namespace, one ingress rule: peers {all, app=b} x ports {all, a symbolic TCP range}
func (g *zzGen) zzGenNPTiny(name, ns string) *netv1.NetworkPolicy {
	np := &netv1.NetworkPolicy{
		TypeMeta:   metav1.TypeMeta{Kind: "NetworkPolicy", APIVersion: "networking.k8s.io/v1"},
		ObjectMeta: metav1.ObjectMeta{Name: name, Namespace: ns},
	}
	rn := name + ".in"
	np.Spec.Ingress = []netv1.NetworkPolicyIngressRule{{
		From:  g.zzPeersMenu(rn, vf_Choose(rn+".peers", 2)),
		Ports: zzPortsMenu(rn, vf_Choose(rn+".ports", 2)),
	}}
	return np
}

// zzGenNPMenu: one rule in a chosen direction; menu sizes are parameters (selector menu: all / app=a / NotIn[a,z])
func (g *zzGen) zzGenNPMenu(name, ns string, nSel, nPeers, nPorts int) *netv1.NetworkPolicy {
	np := &netv1.NetworkPolicy{
		TypeMeta:   metav1.TypeMeta{Kind: "NetworkPolicy", APIVersion: "networking.k8s.io/v1"},
		ObjectMeta: metav1.ObjectMeta{Name: name, Namespace: ns},
	}
	np.Spec.PodSelector = zzSelMenu(vf_Choose(name+".sel", nSel))
	rn := name + ".r"
	peers := g.zzPeersMenu(rn, vf_Choose(rn+".peers", nPeers))
	ports := zzPortsMenu(rn, vf_Choose(rn+".ports", nPorts))
	if vf_Choose(name+".dir", 2) == 0 {
		np.Spec.Ingress = []netv1.NetworkPolicyIngressRule{{From: peers, Ports: ports}}
	} else {
		np.Spec.Egress = []netv1.NetworkPolicyEgressRule{{To: peers, Ports: ports}}
	}
	return np
}

// ---- admin policy menus -------------------------------------------------------------------------

func zzAdmSubject(k int) apisv1a.AdminNetworkPolicySubject {
	switch k {
	case 1:
		return apisv1a.AdminNetworkPolicySubject{Pods: &apisv1a.NamespacedPod{PodSelector: *zzSel("app", "a")}}
	case 2:
		return apisv1a.AdminNetworkPolicySubject{Namespaces: zzSel(zzNsNameLabel, "ns1")}
	}
	return apisv1a.AdminNetworkPolicySubject{Namespaces: &metav1.LabelSelector{}}
}

func zzAdmPeerNs(k int) (*metav1.LabelSelector, *apisv1a.NamespacedPod) {
	switch k {
	case 1:
		return nil, &apisv1a.NamespacedPod{PodSelector: *zzSel("app", "b")}
	case 2:
		return zzSel(zzNsNameLabel, "ns2"), nil
	}
	return &metav1.LabelSelector{}, nil
}

func zzAdmPorts(name string, k int) *[]apisv1a.AdminNetworkPolicyPort {
	switch k {
	case 1: // two entries: an explicit UDP port, then a port without protocol (defaults to TCP)
		return &[]apisv1a.AdminNetworkPolicyPort{
			{PortNumber: &apisv1a.Port{Protocol: corev1.ProtocolUDP, Port: zzPortVar(name + ".n")}},
			{PortNumber: &apisv1a.Port{Port: zzPortVar(name + ".m")}},
		}
	case 2:
		s, e := zzPortVar(name+".s"), zzPortVar(name+".e")
		vf_Assume(s <= e)
		return &[]apisv1a.AdminNetworkPolicyPort{{PortRange: &apisv1a.PortRange{Protocol: corev1.ProtocolTCP, Start: s, End: e}}}
	case 3:
		h := "http"
		return &[]apisv1a.AdminNetworkPolicyPort{{NamedPort: &h}}
	case 4: // SCTP range followed by a range without protocol
		s, e := zzPortVar(name+".s"), zzPortVar(name+".e")
		vf_Assume(s <= e)
		return &[]apisv1a.AdminNetworkPolicyPort{
			{PortRange: &apisv1a.PortRange{Protocol: corev1.ProtocolSCTP, Start: s, End: e}},
			{PortRange: &apisv1a.PortRange{Start: s, End: e}},
		}
	}
	return nil
}

var zzActions = []apisv1a.AdminNetworkPolicyRuleAction{apisv1a.AdminNetworkPolicyRuleActionAllow, apisv1a.AdminNetworkPolicyRuleActionDeny, apisv1a.AdminNetworkPolicyRuleActionPass}

// zzGenANP: one ANP with nRules rules in one direction (ingress if ing)
func (g *zzGen) zzGenANP(name string, prio int32, ing bool, nRules, nPortKinds int) *apisv1a.AdminNetworkPolicy {
	return g.zzGenANPx(name, prio, ing, nRules, 3, 3, nPortKinds)
}

// zzGenANPx: menu sizes for subject / peer / ports are parameters (1 = only the first, most general, entry)
func (g *zzGen) zzGenANPx(name string, prio int32, ing bool, nRules, nSubj, nPeer, nPortKinds int) *apisv1a.AdminNetworkPolicy {
	anp := &apisv1a.AdminNetworkPolicy{
		TypeMeta:   metav1.TypeMeta{Kind: "AdminNetworkPolicy", APIVersion: "policy.networking.k8s.io/v1alpha1"},
		ObjectMeta: metav1.ObjectMeta{Name: name},
	}
	anp.Spec.Priority = prio
	anp.Spec.Subject = zzAdmSubject(vf_Choose(name+".subj", nSubj))
	for r := 0; r < nRules; r++ {
		rn := fmt.Sprintf("%s.r%d", name, r)
		act := zzActions[vf_Choose(rn+".act", 3)]
		nss, pods := zzAdmPeerNs(vf_Choose(rn+".peer", nPeer))
		ports := zzAdmPorts(rn, vf_Choose(rn+".ports", nPortKinds))
		if ing {
			anp.Spec.Ingress = append(anp.Spec.Ingress, apisv1a.AdminNetworkPolicyIngressRule{Action: act,
				From: []apisv1a.AdminNetworkPolicyIngressPeer{{Namespaces: nss, Pods: pods}}, Ports: ports})
		} else {
			anp.Spec.Egress = append(anp.Spec.Egress, apisv1a.AdminNetworkPolicyEgressRule{Action: act,
				To: []apisv1a.AdminNetworkPolicyEgressPeer{{Namespaces: nss, Pods: pods}}, Ports: ports})
		}
	}
	return anp
}

func (g *zzGen) addANP(anp *apisv1a.AdminNetworkPolicy) {
	g.W.ANPs = append(g.W.ANPs, anp)
	g.Objs = append(g.Objs, parser.K8sObject{Kind: parser.AdminNetworkPolicy, AdminNetworkPolicy: anp})
}

// zzGenBANP: the BANP with nRules rules in one direction
func (g *zzGen) zzGenBANP(ing bool, nRules, nPortKinds int) *apisv1a.BaselineAdminNetworkPolicy {
	return g.zzGenBANPx(ing, nRules, 3, 3, nPortKinds)
}

func (g *zzGen) zzGenBANPx(ing bool, nRules, nSubj, nPeer, nPortKinds int) *apisv1a.BaselineAdminNetworkPolicy {
	b := &apisv1a.BaselineAdminNetworkPolicy{
		TypeMeta:   metav1.TypeMeta{Kind: "BaselineAdminNetworkPolicy", APIVersion: "policy.networking.k8s.io/v1alpha1"},
		ObjectMeta: metav1.ObjectMeta{Name: "default"},
	}
	b.Spec.Subject = zzAdmSubject(vf_Choose("banp.subj", nSubj))
	acts := []apisv1a.BaselineAdminNetworkPolicyRuleAction{apisv1a.BaselineAdminNetworkPolicyRuleActionAllow, apisv1a.BaselineAdminNetworkPolicyRuleActionDeny}
	for r := 0; r < nRules; r++ {
		rn := fmt.Sprintf("banp.r%d", r)
		act := acts[vf_Choose(rn+".act", 2)]
		nss, pods := zzAdmPeerNs(vf_Choose(rn+".peer", nPeer))
		ports := zzAdmPorts(rn, vf_Choose(rn+".ports", nPortKinds))
		if ing {
			b.Spec.Ingress = append(b.Spec.Ingress, apisv1a.BaselineAdminNetworkPolicyIngressRule{Action: act,
				From: []apisv1a.AdminNetworkPolicyIngressPeer{{Namespaces: nss, Pods: pods}}, Ports: ports})
		} else {
			b.Spec.Egress = append(b.Spec.Egress, apisv1a.BaselineAdminNetworkPolicyEgressRule{Action: act,
				To: []apisv1a.AdminNetworkPolicyEgressPeer{{Namespaces: nss, Pods: pods}}, Ports: ports})
		}
	}
	return b
}

func (g *zzGen) addBANP(b *apisv1a.BaselineAdminNetworkPolicy) {
	g.W.BANP = b
	g.Objs = append(g.Objs, parser.K8sObject{Kind: parser.BaselineAdminNetworkPolicy, BaselineAdminNetworkPolicy: b})
}
