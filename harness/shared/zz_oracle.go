package shared

// Oracles: Kubernetes NetworkPolicy / AdminNetworkPolicy semantics written directly over the API
// objects, independent of the tool's data structures (no ConnectionSet, no interval code, no
// labels.Selector). Symbolic content (ports, addresses, CIDR bits, priorities) flows through
// vf_And/vf_Or so that the oracles add no control paths.

import (
	corev1 "k8s.io/api/core/v1"
	netv1 "k8s.io/api/networking/v1"
	metav1 "k8s.io/apimachinery/pkg/apis/meta/v1"
	"k8s.io/apimachinery/pkg/util/intstr"
	apisv1a "sigs.k8s.io/network-policy-api/apis/v1alpha1"
)

const zzNsNameLabel = "kubernetes.io/metadata.name"

// zzWPod: a workload (one pod template) of the world
type zzWPod struct {
	Ns, Name string
	Labels   map[string]string
	Ports    []corev1.ContainerPort
}

// zzWNs: a namespace; HasObj=false means no Namespace manifest (only the automatic name label)
type zzWNs struct {
	Name   string
	Labels map[string]string
	HasObj bool
}

type zzWorld struct {
	Nss  []zzWNs
	Pods []*zzWPod
	NPs  []*netv1.NetworkPolicy
	ANPs []*apisv1a.AdminNetworkPolicy
	BANP *apisv1a.BaselineAdminNetworkPolicy
}

// zzEnd: one end of a connection: a pod or an external IPv4 address
type zzEnd struct {
	Pod  *zzWPod
	IsIP bool
	Addr uint32
}

func (w *zzWorld) nsLabels(ns string) map[string]string {
	res := map[string]string{zzNsNameLabel: ns}
	for _, n := range w.Nss {
		if n.Name == ns && n.HasObj {
			for k, v := range n.Labels {
				res[k] = v
			}
			res[zzNsNameLabel] = ns
		}
	}
	return res
}

// zzSelMatches: standard label selector semantics (nil selector matches nothing here; callers
// handle nil according to the field's meaning)
func zzSelMatches(sel *metav1.LabelSelector, labels map[string]string) bool {
	if sel == nil {
		return false
	}
	for k, v := range sel.MatchLabels {
		if lv, ok := labels[k]; !ok || lv != v {
			return false
		}
	}
	for _, e := range sel.MatchExpressions {
		lv, has := labels[e.Key]
		in := false
		for _, v := range e.Values {
			if has && v == lv {
				in = true
			}
		}
		switch e.Operator {
		case metav1.LabelSelectorOpIn:
			if !in {
				return false
			}
		case metav1.LabelSelectorOpNotIn:
			if in {
				return false
			}
		case metav1.LabelSelectorOpExists:
			if !has {
				return false
			}
		case metav1.LabelSelectorOpDoesNotExist:
			if has {
				return false
			}
		}
	}
	return true
}

func zzProtoOf(p *corev1.Protocol) corev1.Protocol {
	if p == nil || *p == "" {
		return corev1.ProtocolTCP
	}
	return *p
}

// zzCidr: the pieces of a CIDR given to a policy as text by vf_CidrStr: a concrete prefix length N
// and the symbolic network bits Hi (the top N bits); host bits of the written address are arbitrary.
type zzCidr struct {
	Hi uint32 // value of the top N bits
	N  int
}

// zzCidrRange: the address range of the CIDR: [Hi*2^(32-N), Hi*2^(32-N) + 2^(32-N) - 1]
func zzCidrRange(c zzCidr) (start, end int64) {
	if c.N == 0 {
		return 0, 0xffffffff
	}
	k := uint(32 - c.N)
	start = int64(c.Hi) << k
	end = start + (int64(1) << k) - 1
	return start, end
}

// zzInCidr: addr inside the CIDR (prefix match, written as a range test)
func zzInCidr(addr uint32, c zzCidr) bool {
	start, end := zzCidrRange(c)
	return vf_And(start <= int64(addr), int64(addr) <= end)
}

// zzCidrInside: inner is a strict sub-range of outer (Kubernetes validates excepts this way)
func zzCidrInside(inner, outer zzCidr) bool {
	if inner.N <= outer.N {
		return false
	}
	is, ie := zzCidrRange(inner)
	os, oe := zzCidrRange(outer)
	return vf_And(os <= is, ie <= oe)
}

// prefix lengths explored: quick {0,24,32}; thorough {0,1,8,24,31,32} and every length 0..32 for one CIDR of the world
var zzPrefixMenuQuick = []int{0, 24, 32}
var zzPrefixMenuFull = []int{0, 1, 8, 24, 31, 32}

// zzCidrBook maps the CIDR strings the harness generated to their pieces
type zzCidrBook struct {
	strs     []string
	cidrs    []zzCidr
	fullUsed bool
	menu     []int // override of the prefix-length menu (nil = by tier)
}

func (b *zzCidrBook) New(name string) string {
	var n int
	if b.menu != nil {
		n = b.menu[vf_Choose(name+".len", len(b.menu))]
	} else if vf_Tier() > 0 && !b.fullUsed {
		b.fullUsed = true
		n = vf_Choose(name+".len", 33)
	} else if vf_Tier() > 0 {
		n = zzPrefixMenuFull[vf_Choose(name+".len", len(zzPrefixMenuFull))]
	} else {
		n = zzPrefixMenuQuick[vf_Choose(name+".len", len(zzPrefixMenuQuick))]
	}
	base := vf_Uint32Split(name, n)
	var hi uint32
	switch {
	case n == 32:
		hi = base
	case n > 0:
		hi = vf_Uint32N(name+".hi", n)
	}
	s := vf_CidrStr(base, n)
	b.strs = append(b.strs, s)
	b.cidrs = append(b.cidrs, zzCidr{Hi: hi, N: n})
	return s
}

func (b *zzCidrBook) last() zzCidr { return b.cidrs[len(b.cidrs)-1] }

func (b *zzCidrBook) lookup(s string) zzCidr {
	for i := range b.strs {
		if vf_SameString(b.strs[i], s) {
			return b.cidrs[i]
		}
	}
	panic("zzCidrBook: unknown cidr")
}

func (b *zzCidrBook) inBlock(addr uint32, blk *netv1.IPBlock) bool {
	r := zzInCidr(addr, b.lookup(blk.CIDR))
	for _, ex := range blk.Except {
		r = vf_And(r, vf_Not(zzInCidr(addr, b.lookup(ex))))
	}
	return r
}

// ---------------------------------------------------------------------------------------------
// NetworkPolicy layer

func zzNPAffects(np *netv1.NetworkPolicy, ingress bool) bool {
	if len(np.Spec.PolicyTypes) > 0 {
		for _, t := range np.Spec.PolicyTypes {
			if ingress && t == netv1.PolicyTypeIngress || !ingress && t == netv1.PolicyTypeEgress {
				return true
			}
		}
		return false
	}
	if ingress {
		return true
	}
	return len(np.Spec.Egress) > 0
}

func zzNPNamespace(np *netv1.NetworkPolicy) string {
	if np.Namespace == "" {
		return "default"
	}
	return np.Namespace
}

func zzNPSelects(np *netv1.NetworkPolicy, p *zzWPod, ingress bool) bool {
	return zzNPNamespace(np) == p.Ns && zzNPAffects(np, ingress) && zzSelMatches(&np.Spec.PodSelector, p.Labels)
}

func (w *zzWorld) npPeerMatch(np *netv1.NetworkPolicy, peers []netv1.NetworkPolicyPeer, other zzEnd, book *zzCidrBook) bool {
	if len(peers) == 0 {
		return true
	}
	r := false
	for i := range peers {
		pr := &peers[i]
		if pr.IPBlock != nil {
			if other.IsIP {
				r = vf_Or(r, book.inBlock(other.Addr, pr.IPBlock))
			}
			continue
		}
		if other.IsIP {
			continue
		}
		nsOK := false
		if pr.NamespaceSelector == nil {
			nsOK = other.Pod.Ns == zzNPNamespace(np)
		} else {
			nsOK = zzSelMatches(pr.NamespaceSelector, w.nsLabels(other.Pod.Ns))
		}
		podOK := pr.PodSelector == nil || zzSelMatches(pr.PodSelector, other.Pod.Labels)
		if nsOK && podOK {
			r = true
		}
	}
	return r
}

// zzNamedPortNum: the number the named port resolves to on dst for the rule protocol (ok=false: none)
func zzNamedPort(dst *zzWPod, name string, proto corev1.Protocol) (int32, bool) {
	if dst == nil {
		return 0, false
	}
	for _, cp := range dst.Ports {
		if cp.Name == name {
			cpProto := cp.Protocol
			if cpProto == "" {
				cpProto = corev1.ProtocolTCP
			}
			if cpProto == proto {
				return cp.ContainerPort, true
			}
			return 0, false
		}
	}
	return 0, false
}

func zzNPPortMatch(ports []netv1.NetworkPolicyPort, proto corev1.Protocol, x int64, dst *zzWPod) bool {
	if len(ports) == 0 {
		return true
	}
	r := false
	for i := range ports {
		pp := &ports[i]
		if zzProtoOf(pp.Protocol) != proto {
			continue
		}
		if pp.Port == nil {
			r = true
			continue
		}
		if pp.Port.Type == intstr.String {
			if num, ok := zzNamedPort(dst, pp.Port.StrVal, proto); ok {
				r = vf_Or(r, x == int64(num))
			}
			continue
		}
		lo := int64(pp.Port.IntVal)
		hi := lo
		if pp.EndPort != nil {
			hi = int64(*pp.EndPort)
		}
		r = vf_Or(r, vf_And(lo <= x, x <= hi))
	}
	return r
}

// zzNPDir: the NetworkPolicy layer in one direction for the pod `self`.
// governed: some policy selects self in that direction; allowed: some rule of a governing policy
// matches the other end and (proto, x). dst is the destination pod (nil for an IP destination).
func (w *zzWorld) zzNPDir(self *zzWPod, other zzEnd, ingress bool, proto corev1.Protocol, x int64, dst *zzWPod, book *zzCidrBook) (governed, allowed bool) {
	for _, np := range w.NPs {
		if !zzNPSelects(np, self, ingress) {
			continue
		}
		governed = true
		if ingress {
			for i := range np.Spec.Ingress {
				rule := &np.Spec.Ingress[i]
				allowed = vf_Or(allowed, vf_And(w.npPeerMatch(np, rule.From, other, book), zzNPPortMatch(rule.Ports, proto, x, dst)))
			}
		} else {
			for i := range np.Spec.Egress {
				rule := &np.Spec.Egress[i]
				allowed = vf_Or(allowed, vf_And(w.npPeerMatch(np, rule.To, other, book), zzNPPortMatch(rule.Ports, proto, x, dst)))
			}
		}
	}
	return governed, allowed
}

// zzUsesNamedPortOnIP: some rule selecting src for egress carries a named port (the tool's documented
// deviation: a fatal error when it must be resolved on an IP destination)
func (w *zzWorld) zzEgressNamedPort(src *zzWPod) bool {
	for _, np := range w.NPs {
		if !zzNPSelects(np, src, false) {
			continue
		}
		for i := range np.Spec.Egress {
			for j := range np.Spec.Egress[i].Ports {
				pp := &np.Spec.Egress[i].Ports[j]
				if pp.Port != nil && pp.Port.Type == intstr.String {
					return true
				}
			}
		}
	}
	return false
}

// ---------------------------------------------------------------------------------------------
// Admin policies

func (w *zzWorld) admSubjectSelects(s *apisv1a.AdminNetworkPolicySubject, p *zzWPod) bool {
	if s.Namespaces != nil {
		return zzSelMatches(s.Namespaces, w.nsLabels(p.Ns))
	}
	if s.Pods != nil {
		return zzSelMatches(&s.Pods.NamespaceSelector, w.nsLabels(p.Ns)) && zzSelMatches(&s.Pods.PodSelector, p.Labels)
	}
	return false
}

func (w *zzWorld) admPeerMatch(nss *metav1.LabelSelector, pods *apisv1a.NamespacedPod, other zzEnd) bool {
	if other.IsIP {
		return false
	}
	if nss != nil {
		return zzSelMatches(nss, w.nsLabels(other.Pod.Ns))
	}
	if pods != nil {
		return zzSelMatches(&pods.NamespaceSelector, w.nsLabels(other.Pod.Ns)) && zzSelMatches(&pods.PodSelector, other.Pod.Labels)
	}
	return false
}

func zzAdmProto(p corev1.Protocol) corev1.Protocol {
	if p == "" {
		return corev1.ProtocolTCP
	}
	return p
}

func zzAdmPortMatch(ports *[]apisv1a.AdminNetworkPolicyPort, proto corev1.Protocol, x int64, dst *zzWPod) bool {
	if ports == nil {
		return true
	}
	r := false
	for i := range *ports {
		pp := &(*ports)[i]
		switch {
		case pp.PortNumber != nil:
			if zzAdmProto(pp.PortNumber.Protocol) == proto {
				r = vf_Or(r, x == int64(pp.PortNumber.Port))
			}
		case pp.PortRange != nil:
			if zzAdmProto(pp.PortRange.Protocol) == proto {
				r = vf_Or(r, vf_And(int64(pp.PortRange.Start) <= x, x <= int64(pp.PortRange.End)))
			}
		case pp.NamedPort != nil:
			if dst != nil {
				for _, cp := range dst.Ports {
					if cp.Name == *pp.NamedPort {
						if zzAdmProto(cp.Protocol) == proto {
							r = vf_Or(r, x == int64(cp.ContainerPort))
						}
						break
					}
				}
			}
		}
	}
	return r
}

// verdict codes of the ANP layer
const (
	zzVNone  = 0
	zzVAllow = 1
	zzVDeny  = 2
	zzVPass  = 3
)

// zzANPVerdict: scanning the ANPs selecting self in ascending priority and their rules in order, the
// first rule matching the other end and (proto,x) decides. Returned as a symbolic integer.
// Priorities may be symbolic (assumed pairwise distinct): the order is encoded pointwise —
// rule (i,k) decides iff it matches and no matching rule precedes it.
func (w *zzWorld) zzANPVerdict(self *zzWPod, other zzEnd, ingress bool, proto corev1.Protocol, x int64, dst *zzWPod) int {
	type cand struct {
		match  bool
		prio   int32
		idx    int // rule index within the policy
		action int
		pol    int
	}
	var cs []cand
	for pi, anp := range w.ANPs {
		if !w.admSubjectSelects(&anp.Spec.Subject, self) {
			continue
		}
		if ingress {
			for k := range anp.Spec.Ingress {
				r := &anp.Spec.Ingress[k]
				m := false
				for j := range r.From {
					if w.admPeerMatch(r.From[j].Namespaces, r.From[j].Pods, other) {
						m = true
					}
				}
				cs = append(cs, cand{match: vf_And(m, zzAdmPortMatch(r.Ports, proto, x, dst)), prio: anp.Spec.Priority, idx: k, action: zzActionCode(string(r.Action)), pol: pi})
			}
		} else {
			for k := range anp.Spec.Egress {
				r := &anp.Spec.Egress[k]
				m := false
				for j := range r.To {
					if w.admPeerMatch(r.To[j].Namespaces, r.To[j].Pods, other) {
						m = true
					}
				}
				cs = append(cs, cand{match: vf_And(m, zzAdmPortMatch(r.Ports, proto, x, dst)), prio: anp.Spec.Priority, idx: k, action: zzActionCode(string(r.Action)), pol: pi})
			}
		}
	}
	verdict := zzVNone
	for i := range cs {
		first := cs[i].match
		for j := range cs {
			if i == j {
				continue
			}
			var before bool
			if cs[j].pol == cs[i].pol {
				before = cs[j].idx < cs[i].idx
			} else {
				before = cs[j].prio < cs[i].prio
			}
			first = vf_And(first, vf_Not(vf_And(cs[j].match, before)))
		}
		verdict = vf_IteInt(first, cs[i].action, verdict)
	}
	return verdict
}

func zzActionCode(a string) int {
	switch a {
	case "Allow":
		return zzVAllow
	case "Deny":
		return zzVDeny
	case "Pass":
		return zzVPass
	}
	return zzVNone
}

// zzBANPVerdict: first matching BANP rule (Allow/Deny), zzVNone if none or no BANP / not selected
func (w *zzWorld) zzBANPVerdict(self *zzWPod, other zzEnd, ingress bool, proto corev1.Protocol, x int64, dst *zzWPod) int {
	if w.BANP == nil || !w.admSubjectSelects(&w.BANP.Spec.Subject, self) {
		return zzVNone
	}
	verdict := zzVNone
	decided := false
	if ingress {
		for k := range w.BANP.Spec.Ingress {
			r := &w.BANP.Spec.Ingress[k]
			m := false
			for j := range r.From {
				if w.admPeerMatch(r.From[j].Namespaces, r.From[j].Pods, other) {
					m = true
				}
			}
			hit := vf_And(m, zzAdmPortMatch(r.Ports, proto, x, dst), vf_Not(decided))
			verdict = vf_IteInt(hit, zzActionCode(string(r.Action)), verdict)
			decided = vf_Or(decided, hit)
		}
	} else {
		for k := range w.BANP.Spec.Egress {
			r := &w.BANP.Spec.Egress[k]
			m := false
			for j := range r.To {
				if w.admPeerMatch(r.To[j].Namespaces, r.To[j].Pods, other) {
					m = true
				}
			}
			hit := vf_And(m, zzAdmPortMatch(r.Ports, proto, x, dst), vf_Not(decided))
			verdict = vf_IteInt(hit, zzActionCode(string(r.Action)), verdict)
			decided = vf_Or(decided, hit)
		}
	}
	return verdict
}

// zzDirAllowed: the full layering in one direction for pod self (C02's statement).
func (w *zzWorld) zzDirAllowed(self *zzWPod, other zzEnd, ingress bool, proto corev1.Protocol, x int64, dst *zzWPod, book *zzCidrBook) bool {
	av := w.zzANPVerdict(self, other, ingress, proto, x, dst)
	governed, npAllowed := w.zzNPDir(self, other, ingress, proto, x, dst, book)
	bv := w.zzBANPVerdict(self, other, ingress, proto, x, dst)
	var lower bool
	if governed {
		lower = npAllowed
	} else {
		lower = bv != zzVDeny
	}
	return vf_Or(av == zzVAllow, vf_And(vf_Or(av == zzVPass, av == zzVNone), lower))
}

// zzAllowed: src -> dst allowed at (proto, x). Either end may be an IP (not both).
func (w *zzWorld) zzAllowed(src, dst zzEnd, proto corev1.Protocol, x int64, book *zzCidrBook) bool {
	r := true
	if !src.IsIP {
		r = vf_And(r, w.zzDirAllowed(src.Pod, dst, false, proto, x, dst.Pod, book))
	}
	if !dst.IsIP {
		r = vf_And(r, w.zzDirAllowed(dst.Pod, src, true, proto, x, dst.Pod, book))
	}
	return r
}
