package shared

//zz:notfor pkg/cli

import (
	corev1 "k8s.io/api/core/v1"

	"github.com/np-guard/netpol-analyzer/pkg/netpol/internal/common"
)

// zzDenCS: (proto, x) is in the connection set — pointwise denotation, branch-free over symbolic content
func zzDenCS(c *common.ConnectionSet, proto corev1.Protocol, x int64) bool {
	if c.AllowAll {
		return true
	}
	p, ok := c.AllowedProtocols[proto]
	if !ok {
		return false
	}
	r := false
	for _, iv := range p.Ports.Intervals() {
		r = vf_Or(r, vf_And(iv.Start() <= x, x <= iv.End()))
	}
	return r
}


// zzCSInv: canonical form of a reported connection set: AllowAll <=> empty map; otherwise per-protocol
// ranges sorted, disjoint, non-adjacent, within 1..65535, no protocol with an empty port set, and not
// all three protocols holding the full range (that is spelled AllowAll)
func zzCSInv(c *common.ConnectionSet) bool {
	if c.AllowAll {
		return len(c.AllowedProtocols) == 0
	}
	r := true
	allFull := len(c.AllowedProtocols) == 3
	for _, p := range c.AllowedProtocols {
		ivs := p.Ports.Intervals()
		if len(ivs) == 0 && len(p.NamedPorts) == 0 {
			return false
		}
		for i, iv := range ivs {
			r = vf_And(r, iv.Start() >= 1, iv.End() <= 65535, iv.Start() <= iv.End())
			if i > 0 {
				r = vf_And(r, iv.Start() > ivs[i-1].End()+1)
			}
		}
		if len(ivs) == 1 && len(p.NamedPorts) == 0 {
			allFull = vf_And(allFull, ivs[0].Start() == 1, ivs[0].End() == 65535)
		} else {
			allFull = false
		}
	}
	return vf_And(r, vf_Not(allFull))
}

var _ = corev1.ProtocolTCP
