package shared

// pools of candidate strings by field name for the unconstrained ("hostile") objects of C12
var zzHostile = map[string][]string{
	"*":               {"a", ""},
	"Namespace":       {"ns1", ""},
	"Name":            {"a", "", "svc"},
	"HostIP":          {"10.0.0.1", "", "::1", "garbage"},
	"IP":              {"10.0.0.2", "", "::2"},
	"CIDR":            {"10.0.0.0/8", "::/0", "bad", ""},
	"Except":          {"10.1.0.0/16", "bad"},
	"Operator":        {"In", "NotIn", "Exists", "DoesNotExist", "Bad"},
	"Protocol":        {"TCP", "", "UDP", "bad"},
	"Action":          {"Allow", "Deny", "Pass", "Bad"},
	"Kind":            {"ReplicaSet", "", "Service"},
	"StrVal":          {"http", ""},
	"Key":             {"app", "bad key!"},
	"Values":          {"a", "bad value!"},
	"Labels#key":      {"app"},
	"MatchLabels#key": {"app", "bad key!"},
	"Selector#key":    {"app"},
	"Annotations#key": {"x"},
	"PolicyTypes":     {"Ingress", "Egress", "Bad"},
	"NamedPort":       {"http", ""},
}

// zzPools: the default object is fully populated (non-nil pointers, one-element slices and maps, the
// first pool string); a path applies at most K structural mutations to it (nil / empty / longer /
// other pool string): quick K=3 with slices <=1, thorough K=4 with slices <=2. Integer and boolean
// fields are symbolic and unconstrained throughout.
func zzPools() map[string][]string {
	p := map[string][]string{}
	for k, v := range zzHostile {
		p[k] = v
	}
	if vf_Tier() > 0 {
		p["#maxslice"] = []string{"2"}
		p["#maxdev"] = []string{"4"}
	} else {
		p["#maxslice"] = []string{"1"}
		p["#maxdev"] = []string{"3"}
	}
	return p
}

