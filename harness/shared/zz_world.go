package shared

// World builders shared by the harnesses of several packages (injected with the package clause rewritten).

import (
	appsv1 "k8s.io/api/apps/v1"
	corev1 "k8s.io/api/core/v1"
	netv1 "k8s.io/api/networking/v1"
	metav1 "k8s.io/apimachinery/pkg/apis/meta/v1"
	"k8s.io/apimachinery/pkg/util/intstr"

	"github.com/np-guard/netpol-analyzer/pkg/manifests/parser"
)

func zzNsObj(name string, labels map[string]string) parser.K8sObject {
	return parser.K8sObject{Kind: parser.Namespace, Namespace: &corev1.Namespace{
		TypeMeta:   metav1.TypeMeta{Kind: "Namespace", APIVersion: "v1"},
		ObjectMeta: metav1.ObjectMeta{Name: name, Labels: labels},
	}}
}

func zzPodTemplate(labels map[string]string, ports []corev1.ContainerPort) corev1.PodTemplateSpec {
	return corev1.PodTemplateSpec{
		ObjectMeta: metav1.ObjectMeta{Labels: labels},
		Spec:       corev1.PodSpec{Containers: []corev1.Container{{Name: "c", Image: "img", Ports: ports}}},
	}
}

func zzDeployObj(ns, name string, labels map[string]string, ports []corev1.ContainerPort) parser.K8sObject {
	return parser.K8sObject{Kind: parser.Deployment, Deployment: &appsv1.Deployment{
		TypeMeta:   metav1.TypeMeta{Kind: "Deployment", APIVersion: "apps/v1"},
		ObjectMeta: metav1.ObjectMeta{Name: name, Namespace: ns},
		Spec:       appsv1.DeploymentSpec{Template: zzPodTemplate(labels, ports)},
	}}
}

// zzPodObj: a bare pod (optionally with a controller owner reference)
func zzPodObj(ns, name string, labels map[string]string, ports []corev1.ContainerPort, owner string) parser.K8sObject {
	p := &corev1.Pod{
		TypeMeta:   metav1.TypeMeta{Kind: "Pod", APIVersion: "v1"},
		ObjectMeta: metav1.ObjectMeta{Name: name, Namespace: ns, Labels: labels},
		Spec:       corev1.PodSpec{Containers: []corev1.Container{{Name: "c", Image: "img", Ports: ports}}},
		Status:     corev1.PodStatus{HostIP: parser.IPv4LoopbackAddr, PodIPs: []corev1.PodIP{{IP: parser.IPv4LoopbackAddr}}},
	}
	if owner != "" {
		t := true
		p.OwnerReferences = []metav1.OwnerReference{{APIVersion: "apps/v1", Kind: "ReplicaSet", Name: owner, Controller: &t}}
	}
	return parser.K8sObject{Kind: parser.Pod, Pod: p}
}

func zzNetpolObj(ns, name string, spec netv1.NetworkPolicySpec) parser.K8sObject {
	return parser.K8sObject{Kind: parser.NetworkPolicy, NetworkPolicy: &netv1.NetworkPolicy{
		TypeMeta:   metav1.TypeMeta{Kind: "NetworkPolicy", APIVersion: "networking.k8s.io/v1"},
		ObjectMeta: metav1.ObjectMeta{Name: name, Namespace: ns},
		Spec:       spec,
	}}
}

func zzSel(kv ...string) *metav1.LabelSelector {
	m := map[string]string{}
	for i := 0; i+1 < len(kv); i += 2 {
		m[kv[i]] = kv[i+1]
	}
	return &metav1.LabelSelector{MatchLabels: m}
}

func zzProtoPtr(p corev1.Protocol) *corev1.Protocol { return &p }

// zzPortRange: a NetworkPolicyPort {protocol, port, endPort}
func zzPortRange(proto corev1.Protocol, port, end int32) netv1.NetworkPolicyPort {
	ip := intstr.FromInt32(port)
	e := end
	return netv1.NetworkPolicyPort{Protocol: zzProtoPtr(proto), Port: &ip, EndPort: &e}
}

func zzPortNum(proto corev1.Protocol, port int32) netv1.NetworkPolicyPort {
	ip := intstr.FromInt32(port)
	return netv1.NetworkPolicyPort{Protocol: zzProtoPtr(proto), Port: &ip}
}

func zzPortName(proto corev1.Protocol, name string) netv1.NetworkPolicyPort {
	ip := intstr.FromString(name)
	return netv1.NetworkPolicyPort{Protocol: zzProtoPtr(proto), Port: &ip}
}

func zzIntStrPtr(p int32) *intstr.IntOrString {
	ip := intstr.FromInt32(p)
	return &ip
}

// zzPodObjRef: a bare pod with an ownerReference whose controller flag is given (nil = omitted)
func zzPodObjRef(ns, name string, labels map[string]string, ownerKind, owner string, controller *bool) parser.K8sObject {
	o := zzPodObj(ns, name, labels, nil, "")
	o.Pod.OwnerReferences = []metav1.OwnerReference{{APIVersion: "v1", Kind: ownerKind, Name: owner, Controller: controller}}
	return o
}
