package shared

import (
	"encoding/json"
	"fmt"
	"os"
	"path/filepath"

	corev1 "k8s.io/api/core/v1"
	netv1 "k8s.io/api/networking/v1"
	metav1 "k8s.io/apimachinery/pkg/apis/meta/v1"
	"k8s.io/apimachinery/pkg/apis/meta/v1/unstructured"
	"k8s.io/apimachinery/pkg/runtime"
	"k8s.io/cli-runtime/pkg/resource"

	"github.com/np-guard/netpol-analyzer/pkg/manifests/parser"
)

// zzInfo: a resource.Info for a typed object. Under symgo the (reflection based) unstructured conversion
// is an environment stub that hands back the registered typed object; natively the real converter is
// used in both directions.
func zzInfo(kind, apiVersion string, typed interface{}) *resource.Info {
	var content map[string]interface{}
	if vf_Symbolic() {
		content = map[string]interface{}{"kind": kind, "apiVersion": apiVersion, "zz_typed": typed}
	} else {
		c, err := runtime.DefaultUnstructuredConverter.ToUnstructured(typed)
		if err != nil {
			panic(err)
		}
		c["kind"], c["apiVersion"] = kind, apiVersion
		content = c
	}
	return &resource.Info{Source: kind + ".yaml", Object: &unstructured.Unstructured{Object: content}}
}

func zzInfosOf(objs []parser.K8sObject) []*resource.Info {
	var infos []*resource.Info
	for i := range objs {
		o := &objs[i]
		switch o.Kind {
		case parser.Namespace:
			infos = append(infos, zzInfo(o.Kind, "v1", o.Namespace))
		case parser.Deployment:
			infos = append(infos, zzInfo(o.Kind, "apps/v1", o.Deployment))
		case parser.NetworkPolicy:
			infos = append(infos, zzInfo(o.Kind, "networking.k8s.io/v1", o.NetworkPolicy))
		case parser.Pod:
			infos = append(infos, zzInfo(o.Kind, "v1", o.Pod))
		case parser.AdminNetworkPolicy:
			infos = append(infos, zzInfo(o.Kind, "policy.networking.k8s.io/v1alpha1", o.AdminNetworkPolicy))
		case parser.BaselineAdminNetworkPolicy:
			infos = append(infos, zzInfo(o.Kind, "policy.networking.k8s.io/v1alpha1", o.BaselineAdminNetworkPolicy))
		}
	}
	return infos
}

// bad / irrelevant documents
func zzBadInfo(k int) (info *resource.Info, severe bool) {
	switch k {
	case 0: // a kind the analysis does not use
		return &resource.Info{Source: "cm.yaml", Object: &unstructured.Unstructured{Object: map[string]interface{}{"kind": "ConfigMap", "apiVersion": "v1",
			"metadata": map[string]interface{}{"name": "cm", "namespace": "ns1"}}}}, false
	case 1: // not an unstructured object at all
		return &resource.Info{Source: "typed.yaml", Object: &corev1.Pod{}}, true
	default: // a used kind that fails schema conversion
		content := map[string]interface{}{"kind": "NetworkPolicy", "apiVersion": "networking.k8s.io/v1",
			"metadata": map[string]interface{}{"name": "broken", "namespace": "ns1"}}
		if vf_Symbolic() {
			content["zz_fail"] = true
		} else {
			content["spec"] = "not-an-object" // the real converter rejects a string where a struct is expected
		}
		return &resource.Info{Source: "broken.yaml", Object: &unstructured.Unstructured{Object: content}}, true
	}
}

func zzInsertInfo(infos []*resource.Info, pos int, x *resource.Info) []*resource.Info {
	res := make([]*resource.Info, 0, len(infos)+1)
	res = append(res, infos[:pos]...)
	res = append(res, x)
	return append(res, infos[pos:]...)
}

// vf_RegisterDir: a directory holding the documents of infos in order; badAt[i]=k places a syntactically broken
// file before document k; the documents whose index is in nested go to a sub-directory. Under symgo the call is intercepted: the directory lives in the scanner stub. Natively
// real files are written to a temporary directory and the real scanner reads them.
func vf_RegisterDir(name string, infos []*resource.Info, badAt []int, nested []int) string {
	dir, err := os.MkdirTemp("", "zzdir-"+name+"-")
	if err != nil {
		panic(err)
	}
	vfCleanup = append(vfCleanup, func() { os.RemoveAll(dir) })
	n := 0
	for i := 0; i <= len(infos); i++ {
		for _, b := range badAt {
			if b == i {
				if err := os.WriteFile(filepath.Join(dir, fmt.Sprintf("%03d-broken.yaml", n)), []byte("kind: Pod\nmetadata: [unclosed\n  name: {x\n"), 0o600); err != nil {
					panic(err)
				}
				n++
			}
		}
		if i < len(infos) {
			u, ok := infos[i].Object.(*unstructured.Unstructured)
			if !ok {
				panic("vf_RegisterDir: only unstructured documents can be written to files")
			}
			b, err := json.Marshal(u.Object)
			if err != nil {
				panic(err)
			}
			target := dir
			for _, k := range nested {
				if k == i {
					target = filepath.Join(dir, "sub")
					if err := os.MkdirAll(target, 0o700); err != nil {
						panic(err)
					}
				}
			}
			if err := os.WriteFile(filepath.Join(target, fmt.Sprintf("%03d-doc.json", n)), b, 0o600); err != nil {
				panic(err)
			}
			n++
		}
	}
	return dir
}

// a document the analysis cannot survive: a NetworkPolicy whose ipBlock is not a CIDR (a fatal error of the list analysis)
func zzC13Fatal() *resource.Info {
	np := zzNetpolObj("ns1", "np-fatal", netv1.NetworkPolicySpec{
		PodSelector: metav1.LabelSelector{MatchLabels: map[string]string{"app": "b"}},
		Ingress:     []netv1.NetworkPolicyIngressRule{{From: []netv1.NetworkPolicyPeer{{IPBlock: &netv1.IPBlock{CIDR: "not-a-cidr"}}}}},
	})
	return zzInfo(parser.NetworkPolicy, "networking.k8s.io/v1", np.NetworkPolicy)
}
