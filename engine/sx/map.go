package sx

// Insertion-ordered map used for all Go maps in the interpreted program.
// Iteration is in insertion order (deterministic, needed for re-execution forking);
// in schedule mode (C08) the start offset of an iteration is a decision.

import (
	"go/types"
)

type mapEntry struct {
	key  value
	val  value
	live bool
}

type omap struct {
	keyType types.Type
	entries []mapEntry
	index   map[int][]int // hash -> entry indices (concrete keys only)
	n       int
	symKeys bool // some stored key has a symbolic component: lookups scan linearly
}

func makeMap(kt types.Type) *omap {
	return &omap{keyType: kt, index: map[int][]int{}}
}

func (om *omap) len() int {
	if om == nil {
		return 0
	}
	return om.n
}

// find returns the entry index of key k, or -1. May fork when keys are symbolic.
func (m *Machine) mapFind(om *omap, k value) int {
	if om == nil {
		return -1
	}
	if !om.symKeys && !containsSym(k) {
		h := hash(om.keyType, k)
		for _, i := range om.index[h] {
			e := &om.entries[i]
			if e.live && m.equals(om.keyType, e.key, k) == true {
				return i
			}
		}
		return -1
	}
	for i := range om.entries {
		e := &om.entries[i]
		if !e.live {
			continue
		}
		eq := m.equals(om.keyType, e.key, k)
		if m.truth(eq, "map-key") {
			return i
		}
	}
	return -1
}

func (m *Machine) mapLookup(om *omap, k value) (value, bool) {
	i := m.mapFind(om, k)
	if i < 0 {
		return nil, false
	}
	return om.entries[i].val, true
}

func (m *Machine) mapInsert(om *omap, k, v value) {
	if i := m.mapFind(om, k); i >= 0 {
		om.entries[i].val = v
		return
	}
	k = copyVal(k)
	om.entries = append(om.entries, mapEntry{key: k, val: v, live: true})
	om.n++
	if containsSym(k) {
		om.symKeys = true
	} else {
		h := hash(om.keyType, k)
		om.index[h] = append(om.index[h], len(om.entries)-1)
	}
}

func (m *Machine) mapDelete(om *omap, k value) {
	i := m.mapFind(om, k)
	if i < 0 {
		return
	}
	om.entries[i].live = false
	om.entries[i].val = nil
	om.n--
}

// mapIter iterates over a snapshot of the keys live at the start (entries deleted during the
// iteration are skipped; entries added during the iteration are not visited — both are
// behaviours Go permits).
type mapIter struct {
	om    *omap
	order []int // entry indices to visit
	pos   int
}

func (m *Machine) newMapIter(om *omap) *mapIter {
	it := &mapIter{om: om}
	if om == nil {
		return it
	}
	for i, e := range om.entries {
		if e.live {
			it.order = append(it.order, i)
		}
	}
	if m.eng.MapSchedule && len(it.order) > 1 {
		off := m.scheduleOffset(len(it.order))
		if off == len(it.order) { // reversed
			rev := make([]int, len(it.order))
			for i, x := range it.order {
				rev[len(rev)-1-i] = x
			}
			it.order = rev
		} else if off > 0 {
			rot := append([]int{}, it.order[off:]...)
			rot = append(rot, it.order[:off]...)
			it.order = rot
		}
	}
	return it
}

func (it *mapIter) next() tuple {
	for it.pos < len(it.order) {
		e := &it.om.entries[it.order[it.pos]]
		it.pos++
		if e.live {
			return tuple{true, copyVal(e.key), e.val}
		}
	}
	return tuple{false, nil, nil}
}
