package sx

import (
	"bytes"
	"fmt"
	"go/token"
	"go/types"
	"os"
	"strings"

	"golang.org/x/tools/go/ssa"
)

func mustDeref(t types.Type) types.Type {
	if p, ok := t.Underlying().(*types.Pointer); ok {
		return p.Elem()
	}
	panic(fmt.Sprintf("mustDeref: %v is not a pointer", t))
}

func isNilFunc(x value) bool {
	switch x := x.(type) {
	case *ssa.Function:
		return x == nil
	case *closure:
		return x == nil
	case *nativeFn:
		return x == nil
	case *ssa.Builtin:
		return x == nil
	}
	panic(fmt.Sprintf("isNilFunc(%T)", x))
}

// eqnil returns the comparison x == y using the equivalence relation appropriate for type t.
func (m *Machine) eqnil(t types.Type, x, y value) value {
	switch t.Underlying().(type) {
	case *types.Signature:
		return isNilFunc(x) == isNilFunc(y)
	case *types.Map:
		return (x.(*omap) != nil) == (y.(*omap) != nil)
	case *types.Slice:
		return (x.([]value) != nil) == (y.([]value) != nil)
	}
	return m.equals(t, x, y)
}

func (m *Machine) binop(op token.Token, t types.Type, x, y value) value {
	if sl, ok := x.(*symLen); ok {
		if c, ok := y.(int); ok {
			switch op {
			case token.SUB:
				return &symLen{s: sl.s, delta: sl.delta - c}
			case token.ADD:
				return &symLen{s: sl.s, delta: sl.delta + c}
			case token.GTR, token.NEQ: // len(s) > 0 etc. for a rope with a non-empty literal part
				if c == 0 && sl.delta == 0 {
					for _, g := range sl.s.segs {
						if g.k == segLit && g.lit != "" || g.k == segDec || g.k == segIP4 {
							return true
						}
					}
				}
			case token.EQL:
				if c == 0 && sl.delta == 0 {
					for _, g := range sl.s.segs {
						if g.k == segLit && g.lit != "" || g.k == segDec || g.k == segIP4 {
							return false
						}
					}
				}
			}
		}
		panic(unsupported("arithmetic on the length of a symbolic string"))
	}
	_, xs := x.(*sym)
	_, ys := y.(*sym)
	if xs || ys {
		return m.symBinop(op, x, y)
	}
	_, xr := x.(*symStr)
	_, yr := y.(*symStr)
	if xr || yr {
		switch op {
		case token.ADD:
			return strConcat(x, y)
		case token.EQL:
			return m.equals(t, x, y)
		case token.NEQ:
			return m.vNot(m.equals(t, x, y))
		}
		panic(unsupported("operator " + op.String() + " on symbolic string"))
	}
	switch op {
	case token.EQL:
		return m.eqnil(t, x, y)
	case token.NEQ:
		return m.vNot(m.eqnil(t, x, y))
	case token.QUO, token.REM:
		switch y.(type) {
		case float32, float64, complex64, complex128:
		default:
			if bitsOfValue(y) == 0 {
				m.targetPanicStr("runtime error: integer divide by zero")
			}
		}
	}
	return binopConcrete(op, t, x, y)
}

func (m *Machine) unop(instr *ssa.UnOp, x value) value {
	switch instr.Op {
	case token.ARROW:
		panic(unsupported("channel receive"))
	case token.MUL:
		p := x.(*value)
		if p == nil {
			m.nilDeref()
		}
		return m.forceLoaded(load(mustDeref(instr.X.Type()), p), mustDeref(instr.X.Type()))
	}
	if s, ok := x.(*sym); ok {
		return m.symUnop(instr.Op, s)
	}
	switch instr.Op {
	case token.SUB:
		switch x := x.(type) {
		case int:
			return -x
		case int8:
			return -x
		case int16:
			return -x
		case int32:
			return -x
		case int64:
			return -x
		case uint:
			return -x
		case uint8:
			return -x
		case uint16:
			return -x
		case uint32:
			return -x
		case uint64:
			return -x
		case uintptr:
			return -x
		case float32:
			return -x
		case float64:
			return -x
		}
	case token.NOT:
		return !x.(bool)
	case token.XOR:
		switch x := x.(type) {
		case int:
			return ^x
		case int8:
			return ^x
		case int16:
			return ^x
		case int32:
			return ^x
		case int64:
			return ^x
		case uint:
			return ^x
		case uint8:
			return ^x
		case uint16:
			return ^x
		case uint32:
			return ^x
		case uint64:
			return ^x
		case uintptr:
			return ^x
		}
	}
	panic(fmt.Sprintf("invalid unary op %s %T", instr.Op, x))
}

// lookup returns x[idx] where x is a map.
func (m *Machine) lookup(instr *ssa.Lookup, x, idx value) value {
	switch x := x.(type) {
	case *omap:
		v, ok := m.mapLookup(x, idx)
		if !ok {
			v = zero(instr.X.Type().Underlying().(*types.Map).Elem())
		} else {
			v = copyVal(v)
		}
		if instr.CommaOk {
			v = tuple{v, ok}
		}
		return v
	}
	panic(fmt.Sprintf("unexpected x type in Lookup: %T", x))
}

// slice returns x[lo:hi:max].  Any of lo, hi and max may be nil.
func (m *Machine) slice(x, lo, hi, max value) value {
	var Len, Cap int
	switch x := x.(type) {
	case string:
		Len = len(x)
		Cap = Len
	case []value:
		Len = len(x)
		Cap = cap(x)
	case *value: // *array
		if x == nil {
			m.nilDeref()
		}
		a := (*x).(array)
		Len = len(a)
		Cap = cap(a)
	case *symStr:
		// only s[:len(s)-k] with the cut inside the trailing literal
		if lo == nil || lo == 0 {
			if sl, ok := hi.(*symLen); ok && sl.s == x && sl.delta <= 0 {
				last := x.segs[len(x.segs)-1]
				if last.k == segLit && len(last.lit) >= -sl.delta {
					segs := append([]seg{}, x.segs...)
					segs[len(segs)-1].lit = last.lit[:len(last.lit)+sl.delta]
					return normRope(segs)
				}
			}
		}
		panic(unsupported("slicing a symbolic string"))
	}
	l := int64(0)
	if lo != nil {
		l = m.concreteInt(lo, "slice-low")
	}
	h := int64(Len)
	if hi != nil {
		h = m.concreteInt(hi, "slice-high")
	}
	mx := int64(Cap)
	if max != nil {
		mx = m.concreteInt(max, "slice-max")
	}
	if _, ok := x.(string); ok {
		if l < 0 || h < l || h > int64(Len) {
			m.targetPanicStr(fmt.Sprintf("runtime error: slice bounds out of range [%d:%d] with length %d", l, h, Len))
		}
	} else if l < 0 || h < l || mx < h || mx > int64(Cap) {
		m.targetPanicStr(fmt.Sprintf("runtime error: slice bounds out of range [%d:%d:%d] with capacity %d", l, h, mx, Cap))
	}
	switch x := x.(type) {
	case string:
		return x[l:h]
	case []value:
		if x == nil && h == 0 {
			return []value(nil)
		}
		return x[l:h:mx]
	case *value: // *array
		a := (*x).(array)
		return []value(a)[l:h:mx]
	}
	panic(fmt.Sprintf("slice: unexpected X type: %T", x))
}

func (m *Machine) callBuiltin(caller *frame, callpos token.Pos, fn *ssa.Builtin, args []value) value {
	switch fn.Name() {
	case "append":
		if len(args) == 1 {
			return args[0]
		}
		if s, ok := args[1].(string); ok {
			tmp := make([]value, len(s))
			for i := 0; i < len(s); i++ {
				tmp[i] = s[i]
			}
			return append(args[0].([]value), tmp...)
		}
		if _, ok := args[1].(*symStr); ok {
			panic(unsupported("append of symbolic string bytes"))
		}
		src := args[1].([]value)
		dst := args[0].([]value)
		if len(src) == 0 {
			return dst
		}
		// copy aggregate elements so that slots are unaliased; append in one step so that
		// capacity / reallocation behaves exactly as in Go
		tmp := make([]value, len(src))
		for i, e := range src {
			tmp[i] = copyVal(e)
		}
		return append(dst, tmp...)

	case "copy":
		src := args[1]
		if s, ok := src.(string); ok {
			var bs []value
			for i := 0; i < len(s); i++ {
				bs = append(bs, s[i])
			}
			src = bs
		}
		dst := args[0].([]value)
		srcv := src.([]value)
		n := len(dst)
		if len(srcv) < n {
			n = len(srcv)
		}
		// handle overlap like memmove
		tmp := make([]value, n)
		for i := 0; i < n; i++ {
			tmp[i] = copyVal(srcv[i])
		}
		copy(dst, tmp)
		return n

	case "close":
		panic(unsupported("close of channel"))

	case "delete":
		switch mm := args[0].(type) {
		case *omap:
			m.mapDelete(mm, args[1])
		default:
			panic(fmt.Sprintf("illegal map type: %T", mm))
		}
		return nil

	case "print", "println":
		ln := fn.Name() == "println"
		var buf bytes.Buffer
		for i, arg := range args {
			if i > 0 && ln {
				buf.WriteRune(' ')
			}
			buf.WriteString(toString(arg))
		}
		if ln {
			buf.WriteRune('\n')
		}
		if m.eng.Verbose {
			os.Stderr.Write(buf.Bytes())
		}
		return nil

	case "len":
		switch x := args[0].(type) {
		case string:
			return len(x)
		case array:
			return len(x)
		case *value:
			return len((*x).(array))
		case []value:
			return len(x)
		case *omap:
			return x.len()
		case *symStr:
			return &symLen{s: x}
		default:
			panic(fmt.Sprintf("len: illegal operand: %T", x))
		}

	case "cap":
		switch x := args[0].(type) {
		case array:
			return cap(x)
		case *value:
			return cap((*x).(array))
		case []value:
			return cap(x)
		default:
			panic(fmt.Sprintf("cap: illegal operand: %T", x))
		}

	case "min":
		x := args[0]
		for _, a := range args[1:] {
			x = m.minmax(x, a, true)
		}
		return x
	case "max":
		x := args[0]
		for _, a := range args[1:] {
			x = m.minmax(x, a, false)
		}
		return x

	case "panic":
		panic(targetPanic{args[0]})

	case "recover":
		return m.doRecover(caller)

	case "ssa:wrapnilchk":
		recv := args[0]
		if recv.(*value) == nil {
			m.nilDeref()
		}
		return recv

	case "ssa:deferstack":
		return &caller.defers

	case "clear":
		switch x := args[0].(type) {
		case []value:
			tElt := fn.Type().(*types.Signature).Params().At(0).Type().Underlying().(*types.Slice).Elem()
			for i := range x {
				x[i] = zero(tElt)
			}
			return nil
		case *omap:
			if x != nil {
				for i := range x.entries {
					x.entries[i].live = false
				}
				x.n = 0
			}
			return nil
		}
	}
	panic(unsupported("built-in: " + fn.Name()))
}

func (m *Machine) minmax(x, y value, isMin bool) value {
	switch x.(type) {
	case float32, float64:
		panic(unsupported("float min/max"))
	}
	var c value
	if isMin {
		c = m.binop(token.LSS, nil, y, x)
	} else {
		c = m.binop(token.GTR, nil, y, x)
	}
	if _, ok := x.(string); ok {
		if c.(bool) {
			return y
		}
		return x
	}
	return m.vIte(c, y, x)
}

func (m *Machine) rangeIter(x value, t types.Type) iter {
	switch x := x.(type) {
	case *omap:
		return m.newMapIter(x)
	case string:
		return &stringIter{Reader: strings.NewReader(x)}
	case *symStr:
		panic(unsupported("range over symbolic string"))
	}
	panic(fmt.Sprintf("cannot range over %T", x))
}

// convV converts x from t_src to t_dst, handling symbolic values.
func (m *Machine) convV(t_dst, t_src types.Type, x value) value {
	switch x := x.(type) {
	case *sym:
		if b, ok := t_dst.Underlying().(*types.Basic); ok {
			return m.symConv(b.Kind(), x)
		}
		panic(unsupported(fmt.Sprintf("conversion of symbolic scalar to %s", t_dst)))
	case *symStr:
		if b, ok := t_dst.Underlying().(*types.Basic); ok && b.Kind() == types.String {
			return x
		}
		panic(unsupported(fmt.Sprintf("conversion of symbolic string to %s", t_dst)))
	case []value:
		// []byte -> string with symbolic bytes?
		for _, e := range x {
			if isSym(e) {
				panic(unsupported("conversion of symbolic bytes to string"))
			}
		}
	}
	return conv(t_dst, t_src, x)
}
