// Copyright 2013 The Go Authors. All rights reserved.
// Use of this source code is governed by a BSD-style
// license that can be found in the LICENSE file.
//
// Derived from golang.org/x/tools/go/ssa/interp (v0.29.0).

package sx

import (
	"fmt"
	"go/token"
	"go/types"
	"runtime/debug"
	"slices"
	"strings"
	"time"
	"unsafe"

	"golang.org/x/tools/go/ssa"

	"symgo/smt"
)

type continuation int

const (
	kNext continuation = iota
	kReturn
	kJump
)

// unsupportedErr: the engine cannot model what the path reached (path is inconclusive).
type unsupportedErr struct{ msg string }

func unsupported(msg string) unsupportedErr { return unsupportedErr{msg} }

// pathAbort ends the current path without a verdict about the target (infeasible / budget / stop).
type pathAbort struct{ reason string }

// engineError wraps an unexpected Go panic inside the engine.
type engineError struct {
	v     interface{}
	stack string
}

type deferred struct {
	fn    value
	args  []value
	instr *ssa.Defer
	tail  *deferred
}

type frame struct {
	m                *Machine
	caller           *frame
	fn               *ssa.Function
	block, prevBlock *ssa.BasicBlock
	env              []value // dynamic values of SSA variables, indexed by fnInfo.index
	isSet            []bool
	info             *fnInfo
	locals           []value
	defers           *deferred
	result           value
	panicking        bool
	panic            interface{}
	phitemps         []value
	cur              ssa.Instruction
}

func (fr *frame) set(key ssa.Value, v value) {
	i := fr.info.index[key]
	fr.env[i] = v
	fr.isSet[i] = true
}

// fnInfo: per-function data computed once (name, value numbering, intrinsic binding)
type fnInfo struct {
	name      string
	index     map[ssa.Value]int
	n         int
	intrinsic intrinsicFn
	overlaps  bool
	built     bool
}

func (e *Engine) fnInfoOf(fn *ssa.Function) *fnInfo {
	if v, ok := e.fnInfos.Load(fn); ok {
		return v.(*fnInfo)
	}
	info := &fnInfo{name: fn.String()}
	if fn.Parent() == nil {
		if strings.HasPrefix(fn.Name(), "vf_") {
			info.intrinsic = e.vf[fn.Name()]
		}
		if info.intrinsic == nil {
			info.intrinsic = e.intrinsics[info.name]
		}
		info.overlaps = strings.HasPrefix(info.name, "slices.overlaps[")
	}
	if info.intrinsic == nil && !info.overlaps {
		if fn.Blocks == nil && fn.Pkg != nil {
			fn.Pkg.Build()
		}
		if fn.Blocks != nil {
			info.built = true
			info.index = map[ssa.Value]int{}
			add := func(v ssa.Value) {
				if _, ok := info.index[v]; !ok {
					info.index[v] = info.n
					info.n++
				}
			}
			for _, p := range fn.Params {
				add(p)
			}
			for _, fv := range fn.FreeVars {
				add(fv)
			}
			for _, l := range fn.Locals {
				add(l)
			}
			for _, b := range fn.Blocks {
				for _, in := range b.Instrs {
					if v, ok := in.(ssa.Value); ok {
						add(v)
					}
				}
			}
		}
	}
	e.fnInfos.Store(fn, info)
	return info
}

func (fr *frame) get(key ssa.Value) value {
	switch key := key.(type) {
	case nil:
		return nil
	case *ssa.Function, *ssa.Builtin:
		return key
	case *ssa.Const:
		return constValue(key)
	case *ssa.Global:
		return fr.m.global(key)
	}
	if i, ok := fr.info.index[key]; ok {
		if r := fr.env[i]; r != nil || fr.isSet[i] {
			if lz, ok := r.(*lazyVal); ok {
				r = fr.m.force(lz)
				fr.env[i] = r
			}
			return r
		}
	}
	panic(fmt.Sprintf("get: no value for %T: %v", key, key.Name()))
}

func (m *Machine) global(g *ssa.Global) *value {
	if r, ok := m.globals[g]; ok {
		return r
	}
	cell := zero(mustDeref(g.Type()))
	m.globals[g] = &cell
	return &cell
}

func (fr *frame) runDefer(d *deferred) {
	var ok bool
	defer func() {
		if !ok {
			r := recover()
			if _, isTarget := r.(targetPanic); !isTarget {
				panic(r)
			}
			fr.panicking = true
			fr.panic = r
		}
	}()
	fr.m.call(fr, d.instr.Pos(), d.fn, d.args)
	ok = true
}

func (fr *frame) runDefers() {
	for d := fr.defers; d != nil; d = d.tail {
		fr.runDefer(d)
	}
	fr.defers = nil
	if fr.panicking {
		panic(fr.panic) // new panic, or still panicking
	}
}

func (m *Machine) lookupMethod(typ types.Type, meth *types.Func) *ssa.Function {
	return m.eng.Prog.LookupMethod(typ, meth.Pkg(), meth.Name())
}

// site describes the current position and call stack (function names, innermost first).
func (m *Machine) site() (string, []string) {
	var stack []string
	pos := ""
	for fr := m.fr; fr != nil; fr = fr.caller {
		stack = append(stack, fr.fn.String())
		if pos == "" && fr.cur != nil && fr.cur.Pos() != token.NoPos {
			p := m.eng.Prog.Fset.Position(fr.cur.Pos())
			pos = fmt.Sprintf("%s:%d", p.Filename, p.Line)
		}
	}
	return pos, stack
}

func (m *Machine) notePanic(msg string) {
	pos, stack := m.site()
	m.lastPanic = &PanicInfo{Msg: msg, Pos: pos, Stack: stack}
}

func (m *Machine) targetPanicStr(msg string) {
	m.notePanic(msg)
	panic(targetPanic{iface{m.eng.runtimeErrorString, msg}})
}

func (m *Machine) nilDeref() {
	m.targetPanicStr("runtime error: invalid memory address or nil pointer dereference")
}

func (m *Machine) visitInstr(fr *frame, instr ssa.Instruction) continuation {
	fr.cur = instr
	m.steps++
	if m.steps > m.eng.MaxSteps {
		panic(pathAbort{"step budget exhausted"})
	}
	if m.steps&0xfff == 0 && m.eng.PathWall > 0 && time.Since(m.t0) > m.eng.PathWall {
		pos, st := m.site()
		if len(st) > 3 {
			st = st[:3]
		}
		panic(pathAbort{fmt.Sprintf("path time budget exhausted at %s in %v after %d decisions", pos, st, m.ndec)})
	}
	switch instr := instr.(type) {
	case *ssa.DebugRef:
		// no-op

	case *ssa.UnOp:
		fr.set(instr, m.unop(instr, fr.get(instr.X)))

	case *ssa.BinOp:
		fr.set(instr, m.binop(instr.Op, instr.X.Type(), fr.get(instr.X), fr.get(instr.Y)))

	case *ssa.Call:
		fn, args := m.prepareCall(fr, &instr.Call)
		fr.set(instr, m.call(fr, instr.Pos(), fn, args))

	case *ssa.ChangeInterface:
		fr.set(instr, fr.get(instr.X))

	case *ssa.ChangeType:
		fr.set(instr, fr.get(instr.X)) // (cannot fail)

	case *ssa.Convert:
		fr.set(instr, m.convV(instr.Type(), instr.X.Type(), fr.get(instr.X)))

	case *ssa.SliceToArrayPointer:
		fr.set(instr, sliceToArrayPointer(instr.Type(), instr.X.Type(), fr.get(instr.X)))

	case *ssa.MakeInterface:
		fr.set(instr, iface{t: instr.X.Type(), v: fr.get(instr.X)})

	case *ssa.Extract:
		fr.set(instr, fr.get(instr.Tuple).(tuple)[instr.Index])

	case *ssa.Slice:
		fr.set(instr, m.slice(fr.get(instr.X), fr.get(instr.Low), fr.get(instr.High), fr.get(instr.Max)))

	case *ssa.Return:
		switch len(instr.Results) {
		case 0:
		case 1:
			fr.result = fr.get(instr.Results[0])
		default:
			var res []value
			for _, r := range instr.Results {
				res = append(res, fr.get(r))
			}
			fr.result = tuple(res)
		}
		fr.block = nil
		return kReturn

	case *ssa.RunDefers:
		fr.runDefers()

	case *ssa.Panic:
		v := fr.get(instr.X)
		m.notePanic("panic: " + m.panicText(v))
		panic(targetPanic{v})

	case *ssa.Send:
		panic(unsupported("channel send"))

	case *ssa.Store:
		addr := fr.get(instr.Addr).(*value)
		if addr == nil {
			m.nilDeref()
		}
		store(mustDeref(instr.Addr.Type()), addr, fr.get(instr.Val))

	case *ssa.If:
		succ := 1
		if m.truth(fr.get(instr.Cond), "if") {
			succ = 0
		}
		fr.prevBlock, fr.block = fr.block, fr.block.Succs[succ]
		return kJump

	case *ssa.Jump:
		fr.prevBlock, fr.block = fr.block, fr.block.Succs[0]
		return kJump

	case *ssa.Defer:
		fn, args := m.prepareCall(fr, &instr.Call)
		defers := &fr.defers
		if into := fr.get(instr.DeferStack); into != nil {
			defers = into.(**deferred)
		}
		*defers = &deferred{
			fn:    fn,
			args:  args,
			instr: instr,
			tail:  *defers,
		}

	case *ssa.Go:
		panic(unsupported("go statement"))

	case *ssa.MakeChan:
		panic(unsupported("make(chan)"))

	case *ssa.Alloc:
		var addr *value
		if instr.Heap {
			addr = new(value)
			fr.set(instr, addr)
		} else {
			addr = fr.get(instr).(*value)
		}
		*addr = zero(mustDeref(instr.Type()))

	case *ssa.MakeSlice:
		c := m.concreteInt(fr.get(instr.Cap), "makeslice-cap")
		l := m.concreteInt(fr.get(instr.Len), "makeslice-len")
		if l < 0 || c < l {
			m.targetPanicStr("runtime error: makeslice: len out of range")
		}
		if c > 1<<24 {
			panic(unsupported(fmt.Sprintf("make([]T, %d): too large for the interpreter", c)))
		}
		slice := make([]value, c)
		tElt := instr.Type().Underlying().(*types.Slice).Elem()
		for i := range slice {
			slice[i] = zero(tElt)
		}
		fr.set(instr, slice[:l])

	case *ssa.MakeMap:
		fr.set(instr, makeMap(instr.Type().Underlying().(*types.Map).Key()))

	case *ssa.Range:
		fr.set(instr, m.rangeIter(fr.get(instr.X), instr.X.Type()))

	case *ssa.Next:
		fr.set(instr, fr.get(instr.Iter).(iter).next())

	case *ssa.FieldAddr:
		p := fr.get(instr.X).(*value)
		if p == nil {
			m.nilDeref()
		}
		if lz, ok := (*p).(*lazyVal); ok {
			*p = m.force(lz)
		}
		fr.set(instr, &(*p).(structure)[instr.Field])

	case *ssa.Field:
		fr.set(instr, fr.get(instr.X).(structure)[instr.Field])

	case *ssa.IndexAddr:
		x := fr.get(instr.X)
		idx := fr.get(instr.Index)
		switch x := x.(type) {
		case []value:
			i := m.indexIn(idx, len(x))
			fr.set(instr, &x[i])
		case *value: // *array
			if x == nil {
				m.nilDeref()
			}
			if lz, ok := (*x).(*lazyVal); ok {
				*x = m.force(lz)
			}
			a := (*x).(array)
			i := m.indexIn(idx, len(a))
			fr.set(instr, &a[i])
		default:
			panic(fmt.Sprintf("unexpected x type in IndexAddr: %T", x))
		}

	case *ssa.Index:
		x := fr.get(instr.X)
		idx := fr.get(instr.Index)
		switch x := x.(type) {
		case array:
			fr.set(instr, x[m.indexIn(idx, len(x))])
		case string:
			fr.set(instr, x[m.indexIn(idx, len(x))])
		case *symStr:
			panic(unsupported("indexing a symbolic string"))
		default:
			panic(fmt.Sprintf("unexpected x type in Index: %T", x))
		}

	case *ssa.Lookup:
		if s, ok := fr.get(instr.X).(string); ok { // string index (s[i]) appears as Lookup? no: Index. keep for safety
			fr.set(instr, s[m.indexIn(fr.get(instr.Index), len(s))])
		} else {
			fr.set(instr, m.lookup(instr, fr.get(instr.X), fr.get(instr.Index)))
		}

	case *ssa.MapUpdate:
		mm := fr.get(instr.Map).(*omap)
		if mm == nil {
			m.targetPanicStr("assignment to entry in nil map")
		}
		m.mapInsert(mm, fr.get(instr.Key), copyVal(fr.get(instr.Value)))

	case *ssa.TypeAssert:
		fr.set(instr, typeAssert(m, instr, fr.get(instr.X).(iface)))

	case *ssa.MakeClosure:
		var bindings []value
		for _, binding := range instr.Bindings {
			bindings = append(bindings, fr.get(binding))
		}
		fr.set(instr, &closure{instr.Fn.(*ssa.Function), bindings})

	case *ssa.Phi:
		panic("unreachable: phis are processed at block entry")

	case *ssa.Select:
		panic(unsupported("select"))

	default:
		panic(fmt.Sprintf("unexpected instruction: %T", instr))
	}
	return kNext
}

// indexIn returns a concrete in-range index; a symbolic index is case-split, out of range panics.
func (m *Machine) indexIn(idx value, n int) int64 {
	if s, ok := idx.(*sym); ok {
		// out of range?
		w := s.t.W
		var oor *smt.Term
		if kindSigned(s.k) {
			oor = m.pool.Or(m.pool.Bin(smt.OpBvSlt, s.t, m.pool.BV(0, w)), m.pool.Bin(smt.OpBvSle, m.pool.BV(uint64(n), w), s.t))
		} else {
			oor = m.pool.Bin(smt.OpBvUle, m.pool.BV(uint64(n), w), s.t)
		}
		if m.truth(m.mkBool(oor), "index-range") {
			m.targetPanicStr(fmt.Sprintf("runtime error: index out of range [symbolic] with length %d", n))
		}
		return m.concreteInt(idx, "index")
	}
	i := asInt64(idx)
	if i < 0 || i >= int64(n) {
		m.targetPanicStr(fmt.Sprintf("runtime error: index out of range [%d] with length %d", i, n))
	}
	return i
}

func (m *Machine) prepareCall(fr *frame, call *ssa.CallCommon) (fn value, args []value) {
	v := fr.get(call.Value)
	if call.Method == nil {
		fn = v
	} else {
		recv := v.(iface)
		if recv.t == nil {
			m.nilDeref()
		}
		if f := m.lookupMethod(recv.t, call.Method); f == nil {
			panic(fmt.Sprintf("method set for dynamic type %v does not contain %s", recv.t, call.Method))
		} else {
			fn = f
		}
		args = append(args, recv.v)
	}
	for _, arg := range call.Args {
		args = append(args, fr.get(arg))
	}
	return
}

func (m *Machine) call(caller *frame, callpos token.Pos, fn value, args []value) value {
	switch fn := fn.(type) {
	case *ssa.Function:
		if fn == nil {
			m.nilDeref()
		}
		return m.callSSA(caller, callpos, fn, args, nil)
	case *closure:
		return m.callSSA(caller, callpos, fn.Fn, args, fn.Env)
	case *ssa.Builtin:
		return m.callBuiltin(caller, callpos, fn, args)
	case *nativeFn:
		return fn.fn(caller, args)
	}
	panic(fmt.Sprintf("cannot call %T", fn))
}

// callFn calls an interpreted function value from engine code (intrinsics).
func (m *Machine) callFn(fn value, args ...value) value {
	return m.call(m.fr, token.NoPos, fn, args)
}

func (m *Machine) callSSA(caller *frame, callpos token.Pos, fn *ssa.Function, args []value, env []value) value {
	fr := &frame{
		m:      m,
		caller: caller,
		fn:     fn,
	}
	info := m.eng.fnInfoOf(fn)
	if fn.Parent() == nil {
		if m.eng.Trace {
			fmt.Printf("%scall %s\n", strings.Repeat(" ", m.depth), info.name)
		}
		if info.overlaps {
			a, b := args[0].([]value), args[1].([]value)
			if len(a) == 0 || len(b) == 0 {
				return false
			}
			sz := unsafe.Sizeof(a[0])
			a0, b0 := uintptr(unsafe.Pointer(&a[0])), uintptr(unsafe.Pointer(&b[0]))
			return a0 <= b0+uintptr(len(b))*sz-1 && b0 <= a0+uintptr(len(a))*sz-1
		}
		if ext := info.intrinsic; ext != nil {
			saved := m.fr
			m.fr = fr
			defer func() { m.fr = saved }()
			if m.eng.Coverage != nil && !strings.HasPrefix(fn.Name(), "vf_") {
				m.noteFunc("intrinsic:" + info.name)
			}
			return ext(fr, args)
		}
		if fn.Synthetic == "package initializer" {
			if !m.eng.initAllowed(fn.Pkg) {
				return nil
			}
		}
		if !info.built {
			panic(unsupported("no code for function: " + info.name))
		}
		if m.eng.Coverage != nil {
			m.noteFunc(info.name)
		}
	} else if !info.built {
		panic(unsupported("no code for function: " + info.name))
	}
	if fn.TypeParams().Len() > 0 && len(fn.TypeArgs()) == 0 {
		panic(unsupported("uninstantiated generic function " + fn.String()))
	}
	m.depth++
	if m.depth > 400 {
		panic(pathAbort{"call depth exceeded"})
	}
	saved := m.fr
	m.fr = fr
	defer func() { m.fr = saved; m.depth-- }()

	fr.info = info
	fr.env = make([]value, info.n)
	fr.isSet = make([]bool, info.n)
	fr.block = fn.Blocks[0]
	fr.locals = make([]value, len(fn.Locals))
	for i, l := range fn.Locals {
		fr.locals[i] = zero(mustDeref(l.Type()))
		fr.set(l, &fr.locals[i])
	}
	for i, p := range fn.Params {
		fr.set(p, args[i])
	}
	for i, fv := range fn.FreeVars {
		fr.set(fv, env[i])
	}
	for fr.block != nil {
		m.runFrame(fr)
	}
	return fr.result
}

func (m *Machine) runFrame(fr *frame) {
	defer func() {
		if fr.block == nil {
			return // normal return
		}
		r := recover()
		if _, ok := r.(targetPanic); !ok {
			// engine-level unwinding: do not run target defers
			switch r.(type) {
			case unsupportedErr, pathAbort, engineError:
				panic(r)
			}
			pos, st := m.site()
			if len(st) > 5 {
				st = st[:5]
			}
			panic(engineError{v: fmt.Sprintf("%v [at %s in %v]", r, pos, st), stack: string(debug.Stack())})
		}
		fr.panicking = true
		fr.panic = r
		m.fr = fr
		fr.runDefers()
		fr.block = fr.fn.Recover
		if fr.block == nil {
			// recovered in a function without named results: return zero values
			fr.result = zeroResult(fr.fn)
		}
	}()

	for {
		nonPhis := m.executePhis(fr)
		for _, instr := range nonPhis {
			if m.visitInstr(fr, instr) == kReturn {
				return
			}
		}
	}
}

func zeroResult(fn *ssa.Function) value {
	res := fn.Signature.Results()
	switch res.Len() {
	case 0:
		return nil
	case 1:
		return zero(res.At(0).Type())
	}
	t := make(tuple, res.Len())
	for i := range t {
		t[i] = zero(res.At(i).Type())
	}
	return t
}

func (m *Machine) executePhis(fr *frame) []ssa.Instruction {
	firstNonPhi := -1
	for i, instr := range fr.block.Instrs {
		if _, ok := instr.(*ssa.Phi); !ok {
			firstNonPhi = i
			break
		}
	}
	nonPhis := fr.block.Instrs[firstNonPhi:]
	if firstNonPhi > 0 {
		phis := fr.block.Instrs[:firstNonPhi]
		predIndex := slices.Index(fr.block.Preds, fr.prevBlock)
		fr.phitemps = fr.phitemps[:0]
		for _, phi := range phis {
			phi := phi.(*ssa.Phi)
			fr.phitemps = append(fr.phitemps, fr.get(phi.Edges[predIndex]))
		}
		for i, phi := range phis {
			fr.set(phi.(*ssa.Phi), fr.phitemps[i])
		}
	}
	return nonPhis
}

func (m *Machine) doRecover(caller *frame) value {
	if caller != nil && !caller.panicking &&
		caller.caller != nil && caller.caller.panicking {
		caller.caller.panicking = false
		p := caller.caller.panic
		caller.caller.panic = nil
		switch p := p.(type) {
		case targetPanic:
			return p.v
		default:
			panic(fmt.Sprintf("unexpected panic type %T in target call to recover()", p))
		}
	}
	return iface{}
}

// panicText renders a panic value for reports.
func (m *Machine) panicText(v value) string {
	if i, ok := v.(iface); ok {
		if s, ok := i.v.(string); ok {
			return s
		}
		if i.t != nil {
			// error / Stringer?
			for _, name := range []string{"Error", "String"} {
				if f := m.eng.Prog.LookupMethod(i.t, nil, name); f != nil && f.Signature.Params().Len() == 0 {
					func() {
						defer func() { recover() }()
						if r, ok := m.callFn(f, i.v).(string); ok {
							v = r
						}
					}()
					if s, ok := v.(string); ok {
						return s
					}
				}
			}
		}
	}
	return toString(v)
}
