package sx

import (
	"fmt"
	"go/token"
	"go/types"

	"symgo/smt"
)

// term converts a concrete or symbolic scalar to a term of kind k's width.
func (m *Machine) term(x value) *smt.Term {
	switch x := x.(type) {
	case *sym:
		return x.t
	case bool:
		return m.pool.Bool(x)
	}
	k := kindOfValue(x)
	if k == types.Invalid {
		panic(unsupported(fmt.Sprintf("term of non-scalar %T", x)))
	}
	return m.pool.BV(bitsOfValue(x), kindWidth(k))
}

// mk wraps a term as a value of kind k, folding constants back to concrete Go values.
func (m *Machine) mk(t *smt.Term, k types.BasicKind) value {
	if t.IsConst() {
		return concreteOfKind(k, t.Val)
	}
	return &sym{t: t, k: k}
}

func (m *Machine) mkBool(t *smt.Term) value { return m.mk(t, types.Bool) }

func isSym(x value) bool {
	_, ok := x.(*sym)
	return ok
}

func (m *Machine) symEq(x *sym, y value) value {
	return m.mkBool(m.pool.Eq(x.t, m.term(y)))
}

func (m *Machine) vAnd(a, b value) value {
	if a == false || b == false {
		return false
	}
	if a == true {
		return b
	}
	if b == true {
		return a
	}
	return m.mkBool(m.pool.And(m.term(a), m.term(b)))
}

func (m *Machine) vOr(a, b value) value {
	if a == true || b == true {
		return true
	}
	if a == false {
		return b
	}
	if b == false {
		return a
	}
	return m.mkBool(m.pool.Or(m.term(a), m.term(b)))
}

func (m *Machine) vNot(a value) value {
	if b, ok := a.(bool); ok {
		return !b
	}
	return m.mkBool(m.pool.Not(m.term(a)))
}

// vIte returns c ? a : b for scalars (symbolic c) — used by min/max and the harness primitive.
func (m *Machine) vIte(c, a, b value) value {
	if cb, ok := c.(bool); ok {
		if cb {
			return a
		}
		return b
	}
	k := kindOfValue(a)
	if k == types.Invalid {
		panic(unsupported(fmt.Sprintf("ite over non-scalar %T", a)))
	}
	return m.mk(m.pool.Ite(m.term(c), m.term(a), m.term(b)), k)
}

func (m *Machine) symBinop(op token.Token, x, y value) value {
	k := kindOfValue(x)
	if k == types.Invalid {
		k = kindOfValue(y)
	}
	p := m.pool
	if k == types.Bool {
		a, b := m.term(x), m.term(y)
		switch op {
		case token.EQL:
			return m.mkBool(p.Eq(a, b))
		case token.NEQ:
			return m.mkBool(p.Not(p.Eq(a, b)))
		case token.AND, token.LAND:
			return m.mkBool(p.And(a, b))
		case token.OR, token.LOR:
			return m.mkBool(p.Or(a, b))
		}
		panic(unsupported("symbolic bool op " + op.String()))
	}
	signed := kindSigned(k)
	w := kindWidth(k)
	a := m.term(x)
	var b *smt.Term
	if op == token.SHL || op == token.SHR {
		// shift amount may have another type: bring it to width w, saturating.
		yk := kindOfValue(y)
		bt := m.term(y)
		if kindSigned(yk) {
			if ys, ok := y.(*sym); ok {
				neg := p.Bin(smt.OpBvSlt, ys.t, p.BV(0, ys.t.W))
				if m.truth(m.mkBool(neg), "shift-neg") {
					m.targetPanicStr("negative shift amount")
				}
			}
		}
		if bt.W > w {
			big := p.Bin(smt.OpBvUle, p.BV(uint64(w), bt.W), bt)
			b = p.Ite(big, p.BV(uint64(w), w), p.Extract(bt, w-1, 0))
		} else {
			b = p.Zext(bt, w)
		}
	} else {
		b = m.term(y)
		if b.W != a.W {
			panic(fmt.Sprintf("symBinop width mismatch %d vs %d for %s", a.W, b.W, op))
		}
	}
	switch op {
	case token.ADD:
		return m.mk(p.Bin(smt.OpBvAdd, a, b), k)
	case token.SUB:
		return m.mk(p.Bin(smt.OpBvSub, a, b), k)
	case token.MUL:
		return m.mk(p.Bin(smt.OpBvMul, a, b), k)
	case token.QUO, token.REM:
		zero := p.Eq(b, p.BV(0, w))
		if m.truth(m.mkBool(zero), "div-zero") {
			m.targetPanicStr("runtime error: integer divide by zero")
		}
		var o smt.Op
		switch {
		case op == token.QUO && signed:
			o = smt.OpBvSDiv
		case op == token.QUO:
			o = smt.OpBvUDiv
		case signed:
			o = smt.OpBvSRem
		default:
			o = smt.OpBvURem
		}
		return m.mk(p.Bin(o, a, b), k)
	case token.AND:
		return m.mk(p.Bin(smt.OpBvAnd, a, b), k)
	case token.OR:
		return m.mk(p.Bin(smt.OpBvOr, a, b), k)
	case token.XOR:
		return m.mk(p.Bin(smt.OpBvXor, a, b), k)
	case token.AND_NOT:
		return m.mk(p.Bin(smt.OpBvAnd, a, p.BvNot(b)), k)
	case token.SHL:
		return m.mk(p.Bin(smt.OpBvShl, a, b), k)
	case token.SHR:
		if signed {
			return m.mk(p.Bin(smt.OpBvAshr, a, b), k)
		}
		return m.mk(p.Bin(smt.OpBvLshr, a, b), k)
	case token.EQL:
		return m.mkBool(p.Eq(a, b))
	case token.NEQ:
		return m.mkBool(p.Not(p.Eq(a, b)))
	case token.LSS:
		if signed {
			return m.mkBool(p.Bin(smt.OpBvSlt, a, b))
		}
		return m.mkBool(p.Bin(smt.OpBvUlt, a, b))
	case token.LEQ:
		if signed {
			return m.mkBool(p.Bin(smt.OpBvSle, a, b))
		}
		return m.mkBool(p.Bin(smt.OpBvUle, a, b))
	case token.GTR:
		if signed {
			return m.mkBool(p.Bin(smt.OpBvSlt, b, a))
		}
		return m.mkBool(p.Bin(smt.OpBvUlt, b, a))
	case token.GEQ:
		if signed {
			return m.mkBool(p.Bin(smt.OpBvSle, b, a))
		}
		return m.mkBool(p.Bin(smt.OpBvUle, b, a))
	}
	panic(unsupported("symbolic binop " + op.String()))
}

func (m *Machine) symUnop(op token.Token, x *sym) value {
	p := m.pool
	switch op {
	case token.NOT:
		return m.mkBool(p.Not(x.t))
	case token.SUB:
		return m.mk(p.BvNeg(x.t), x.k)
	case token.XOR:
		return m.mk(p.BvNot(x.t), x.k)
	}
	panic(unsupported("symbolic unop " + op.String()))
}

// symConv converts a symbolic integer to basic kind dst.
func (m *Machine) symConv(dst types.BasicKind, x *sym) value {
	switch dst {
	case types.Float32, types.Float64, types.Complex64, types.Complex128, types.String, types.UnsafePointer:
		panic(unsupported(fmt.Sprintf("conversion of symbolic integer to %v", dst)))
	}
	if x.k == types.Bool {
		panic(unsupported("conversion of symbolic bool"))
	}
	w := kindWidth(dst)
	var t *smt.Term
	switch {
	case w <= x.t.W:
		t = m.pool.Extract(x.t, w-1, 0)
	case kindSigned(x.k):
		t = m.pool.Sext(x.t, w)
	default:
		t = m.pool.Zext(x.t, w)
	}
	return m.mk(t, dst)
}

// concreteInt forces an integer value to a concrete int64 by case split (bounded).
func (m *Machine) concreteInt(x value, why string) int64 {
	s, ok := x.(*sym)
	if !ok {
		return asInt64(x)
	}
	for n := 0; ; n++ {
		if n > m.eng.MaxConcretize {
			panic(unsupported("unbounded concretization of symbolic integer at " + why))
		}
		v := smt.Eval(s.t, m.model)
		eq := m.pool.Eq(s.t, m.pool.BV(v, s.t.W))
		if m.truth(m.mkBool(eq), "concretize:"+why) {
			return asInt64(concreteOfKind(s.k, v))
		}
	}
}
