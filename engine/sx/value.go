// Copyright 2013 The Go Authors. All rights reserved.
// Use of this source code is governed by a BSD-style
// license that can be found in the LICENSE file.
//
// Derived from golang.org/x/tools/go/ssa/interp (v0.29.0); extended with symbolic scalars,
// symbolic strings, insertion-ordered maps and forking for the symgo bounded symbolic executor.

package sx

// Values
//
// All interpreter values are "boxed" in the empty interface, value.
// The range of possible dynamic types within value are:
//
// - bool
// - numbers (all built-in int/float/complex types are distinguished)
// - string
// - *sym    --- symbolic bool / integer (bit-vector term of the Go width)
// - *symStr --- symbolic string (rope of literals and rendered integer / IPv4 terms)
// - *omap   --- maps (insertion ordered)
// - []value --- slices
// - iface --- interfaces.
// - structure --- structs.  Fields are ordered and accessed by numeric indices.
// - array --- arrays.
// - *value --- pointers.  Careful: *value is a distinct type from *array etc.
// - *ssa.Function \
//   *ssa.Builtin   } --- functions.  A nil 'func' is always of type *ssa.Function.
//   *closure      /
//   *nativeFn    --- a function implemented by the engine
// - tuple --- as returned by Return, Next, "value,ok" modes, etc.
// - iter --- iterators from 'range' over map or string.
// - bad --- a poison pill for locals that have gone out of scope.
// - **deferred -- the address of a frame's defer stack for a Defer._Stack.

import (
	"bytes"
	"fmt"
	"go/types"
	"io"
	"strings"
	"unsafe"

	"golang.org/x/tools/go/ssa"
	"golang.org/x/tools/go/types/typeutil"

	"symgo/smt"
)

type value interface{}

type tuple []value

type array []value

type iface struct {
	t types.Type // never an "untyped" type
	v value
}

type structure []value

// sym is a symbolic scalar: a Bool term (k == types.Bool) or a bit-vector term of the width of kind k.
type sym struct {
	t *smt.Term
	k types.BasicKind
}

// symLen is len(s)+delta for a symbolic string s (only usable as a slice bound of that string).
type symLen struct {
	s     *symStr
	delta int
}

// For map, array, *array, slice, string or channel.
type iter interface {
	// next returns a Tuple (key, value, ok).
	next() tuple
}

type closure struct {
	Fn  *ssa.Function
	Env []value
}

type nativeFn struct {
	name string
	fn   func(fr *frame, args []value) value
}

type bad struct{}

// Hash functions and equivalence relation:

func hashString(s string) int {
	var h uint32
	for i := 0; i < len(s); i++ {
		h ^= uint32(s[i])
		h *= 16777619
	}
	return int(h)
}

var hasher = typeutil.MakeHasher()

func hashType(t types.Type) int {
	return int(hasher.Hash(t))
}

func sameType(x, y types.Type) bool {
	if x == nil {
		return y == nil
	}
	return y != nil && types.Identical(x, y)
}

func kindWidth(k types.BasicKind) int {
	switch k {
	case types.Bool, types.UntypedBool:
		return 0
	case types.Int8, types.Uint8:
		return 8
	case types.Int16, types.Uint16:
		return 16
	case types.Int32, types.Uint32, types.UntypedRune:
		return 32
	case types.Int, types.Int64, types.Uint, types.Uint64, types.Uintptr, types.UntypedInt:
		return 64
	}
	panic(fmt.Sprintf("kindWidth: unsupported kind %v", k))
}

func kindSigned(k types.BasicKind) bool {
	switch k {
	case types.Int, types.Int8, types.Int16, types.Int32, types.Int64, types.UntypedInt, types.UntypedRune:
		return true
	}
	return false
}

func kindOfValue(x value) types.BasicKind {
	switch x := x.(type) {
	case bool:
		return types.Bool
	case int:
		return types.Int
	case int8:
		return types.Int8
	case int16:
		return types.Int16
	case int32:
		return types.Int32
	case int64:
		return types.Int64
	case uint:
		return types.Uint
	case uint8:
		return types.Uint8
	case uint16:
		return types.Uint16
	case uint32:
		return types.Uint32
	case uint64:
		return types.Uint64
	case uintptr:
		return types.Uintptr
	case *sym:
		return x.k
	}
	return types.Invalid
}

// concreteOfKind builds the concrete Go value of basic kind k from bits.
func concreteOfKind(k types.BasicKind, bits uint64) value {
	switch k {
	case types.Bool, types.UntypedBool:
		return bits != 0
	case types.Int, types.UntypedInt:
		return int(bits)
	case types.Int8:
		return int8(bits)
	case types.Int16:
		return int16(bits)
	case types.Int32, types.UntypedRune:
		return int32(bits)
	case types.Int64:
		return int64(bits)
	case types.Uint:
		return uint(bits)
	case types.Uint8:
		return uint8(bits)
	case types.Uint16:
		return uint16(bits)
	case types.Uint32:
		return uint32(bits)
	case types.Uint64:
		return uint64(bits)
	case types.Uintptr:
		return uintptr(bits)
	}
	panic(fmt.Sprintf("concreteOfKind: unsupported kind %v", k))
}

func bitsOfValue(x value) uint64 {
	switch x := x.(type) {
	case bool:
		if x {
			return 1
		}
		return 0
	case int:
		return uint64(x)
	case int8:
		return uint64(x)
	case int16:
		return uint64(x)
	case int32:
		return uint64(x)
	case int64:
		return uint64(x)
	case uint:
		return uint64(x)
	case uint8:
		return uint64(x)
	case uint16:
		return uint64(x)
	case uint32:
		return uint64(x)
	case uint64:
		return x
	case uintptr:
		return uint64(x)
	}
	panic(fmt.Sprintf("bitsOfValue: %T", x))
}

// containsSym reports whether a (key) value has a symbolic component.
func containsSym(x value) bool {
	switch x := x.(type) {
	case *sym, *symStr:
		return true
	case structure:
		for _, e := range x {
			if containsSym(e) {
				return true
			}
		}
	case array:
		for _, e := range x {
			if containsSym(e) {
				return true
			}
		}
	case iface:
		return containsSym(x.v)
	}
	return false
}

// equals returns x == y for type t as a value: a bool, or a *sym of kind Bool.
func (m *Machine) equals(t types.Type, x, y value) value {
	if lz, ok := x.(*lazyVal); ok {
		x = m.force(lz)
	}
	if lz, ok := y.(*lazyVal); ok {
		y = m.force(lz)
	}
	switch x := x.(type) {
	case *sym:
		return m.symEq(x, y)
	case *symStr:
		return m.strEq(x, y)
	case bool, int, int8, int16, int32, int64, uint, uint8, uint16, uint32, uint64, uintptr:
		if ys, ok := y.(*sym); ok {
			return m.symEq(ys, x)
		}
		return x == y
	case float32:
		return x == y.(float32)
	case float64:
		return x == y.(float64)
	case complex64:
		return x == y.(complex64)
	case complex128:
		return x == y.(complex128)
	case string:
		if ys, ok := y.(*symStr); ok {
			return m.strEq(ys, x)
		}
		return x == y.(string)
	case *value:
		return x == y.(*value)
	case unsafe.Pointer:
		return x == y.(unsafe.Pointer)
	case structure:
		ys := y.(structure)
		tStruct := t.Underlying().(*types.Struct)
		var acc value = true
		for i, n := 0, tStruct.NumFields(); i < n; i++ {
			if f := tStruct.Field(i); f.Name() != "_" {
				acc = m.vAnd(acc, m.equals(f.Type(), x[i], ys[i]))
				if acc == false {
					return false
				}
			}
		}
		return acc
	case array:
		ya := y.(array)
		tElt := t.Underlying().(*types.Array).Elem()
		var acc value = true
		for i, xi := range x {
			acc = m.vAnd(acc, m.equals(tElt, xi, ya[i]))
			if acc == false {
				return false
			}
		}
		return acc
	case iface:
		yi := y.(iface)
		if !sameType(x.t, yi.t) {
			return false
		}
		if x.t == nil {
			return true
		}
		return m.equals(x.t, x.v, yi.v)
	case *omap:
		return (x != nil) == (y.(*omap) != nil)
	case []value:
		return (x != nil) == (y.([]value) != nil)
	case *ssa.Function:
		switch y := y.(type) {
		case *ssa.Function:
			return (x != nil) == (y != nil) && (x == nil || x == y)
		case *closure, *nativeFn:
			return x == nil && false
		}
	case *closure:
		switch y := y.(type) {
		case *ssa.Function:
			return false && y == nil
		case *closure:
			return x == y
		}
		return false
	case *nativeFn:
		return false
	}
	panic(unsupported(fmt.Sprintf("comparing uncomparable type %s (%T)", t, x)))
}

// hash returns an integer hash of a concrete x such that equals(x, y) => hash(x) == hash(y).
func hash(t types.Type, x value) int {
	switch x := x.(type) {
	case bool:
		if x {
			return 1
		}
		return 0
	case int:
		return x
	case int8:
		return int(x)
	case int16:
		return int(x)
	case int32:
		return int(x)
	case int64:
		return int(x)
	case uint:
		return int(x)
	case uint8:
		return int(x)
	case uint16:
		return int(x)
	case uint32:
		return int(x)
	case uint64:
		return int(x)
	case uintptr:
		return int(x)
	case float32:
		return int(x)
	case float64:
		return int(x)
	case complex64:
		return int(real(x))
	case complex128:
		return int(real(x))
	case string:
		return hashString(x)
	case *value:
		return int(uintptr(unsafe.Pointer(x)))
	case structure:
		tStruct := t.Underlying().(*types.Struct)
		h := 0
		for i, n := 0, tStruct.NumFields(); i < n; i++ {
			if f := tStruct.Field(i); f.Name() != "_" {
				h += hash(f.Type(), x[i])
			}
		}
		return h
	case array:
		h := 0
		tElt := t.Underlying().(*types.Array).Elem()
		for _, xi := range x {
			h += hash(tElt, xi)
		}
		return h
	case iface:
		if x.t == nil {
			return 0
		}
		return hashType(x.t)*8581 + hash(x.t, x.v)
	}
	panic(unsupported(fmt.Sprintf("unhashable map key %T of type %v", x, t)))
}

// load returns the value of type T in *addr.
func load(T types.Type, addr *value) value {
	if lz, ok := (*addr).(*lazyVal); ok {
		return lz // markers are immutable descriptors: sharing is copying
	}
	switch T := T.Underlying().(type) {
	case *types.Struct:
		v := (*addr).(structure)
		a := make(structure, len(v))
		for i := range a {
			a[i] = load(T.Field(i).Type(), &v[i])
		}
		return a
	case *types.Array:
		v := (*addr).(array)
		a := make(array, len(v))
		for i := range a {
			a[i] = load(T.Elem(), &v[i])
		}
		return a
	default:
		return *addr
	}
}

// store stores value v of type T into *addr.
func store(T types.Type, addr *value, v value) {
	if _, ok := (*addr).(*lazyVal); ok {
		*addr = copyVal(v) // the whole (unmaterialised) cell is overwritten
		return
	}
	if _, ok := v.(*lazyVal); ok {
		*addr = v
		return
	}
	switch T := T.Underlying().(type) {
	case *types.Struct:
		lhs := (*addr).(structure)
		rhs := v.(structure)
		for i := range lhs {
			store(T.Field(i).Type(), &lhs[i], rhs[i])
		}
	case *types.Array:
		lhs := (*addr).(array)
		rhs := v.(array)
		for i := range lhs {
			store(T.Elem(), &lhs[i], rhs[i])
		}
	default:
		*addr = v
	}
}

// copyVal makes an unaliased copy of an aggregate value (structs / arrays are copied deeply,
// everything else is shared as in Go).
func copyVal(v value) value {
	switch v := v.(type) {
	case structure:
		a := make(structure, len(v))
		for i := range v {
			a[i] = copyVal(v[i])
		}
		return a
	case array:
		a := make(array, len(v))
		for i := range v {
			a[i] = copyVal(v[i])
		}
		return a
	}
	return v
}

// Prints in the style of built-in println.
func writeValue(buf *bytes.Buffer, v value, depth int) {
	if depth > 6 {
		buf.WriteString("...")
		return
	}
	switch v := v.(type) {
	case nil, bool, int, int8, int16, int32, int64, uint, uint8, uint16, uint32, uint64, uintptr, float32, float64, complex64, complex128, string:
		fmt.Fprintf(buf, "%v", v)
	case *sym:
		fmt.Fprintf(buf, "<sym %s>", v.t.String())
	case *symStr:
		buf.WriteString(v.String())
	case *omap:
		buf.WriteString("map[")
		sep := ""
		if v != nil {
			for _, e := range v.entries {
				if !e.live {
					continue
				}
				buf.WriteString(sep)
				sep = " "
				writeValue(buf, e.key, depth+1)
				buf.WriteString(":")
				writeValue(buf, e.val, depth+1)
			}
		}
		buf.WriteString("]")
	case *value:
		if v == nil {
			buf.WriteString("<nil>")
		} else {
			buf.WriteString("&")
			writeValue(buf, *v, depth+1)
		}
	case iface:
		fmt.Fprintf(buf, "(%s, ", v.t)
		writeValue(buf, v.v, depth+1)
		buf.WriteString(")")
	case structure:
		buf.WriteString("{")
		for i, e := range v {
			if i > 0 {
				buf.WriteString(" ")
			}
			writeValue(buf, e, depth+1)
		}
		buf.WriteString("}")
	case array:
		buf.WriteString("[")
		for i, e := range v {
			if i > 0 {
				buf.WriteString(" ")
			}
			writeValue(buf, e, depth+1)
		}
		buf.WriteString("]")
	case []value:
		buf.WriteString("[")
		for i, e := range v {
			if i > 0 {
				buf.WriteString(" ")
			}
			writeValue(buf, e, depth+1)
		}
		buf.WriteString("]")
	case *ssa.Function, *ssa.Builtin, *closure:
		fmt.Fprintf(buf, "%p", v) // (an address)
	case tuple:
		buf.WriteString("(")
		for i, e := range v {
			if i > 0 {
				buf.WriteString(", ")
			}
			writeValue(buf, e, depth+1)
		}
		buf.WriteString(")")
	default:
		fmt.Fprintf(buf, "<%T>", v)
	}
}

func toString(v value) string {
	var b bytes.Buffer
	writeValue(&b, v, 0)
	return b.String()
}

// ------------------------------------------------------------------------
// Iterators

type stringIter struct {
	*strings.Reader
	i int
}

func (it *stringIter) next() tuple {
	okv := make(tuple, 3)
	ch, n, err := it.ReadRune()
	ok := err != io.EOF
	okv[0] = ok
	if ok {
		okv[1] = it.i
		okv[2] = ch
	}
	it.i += n
	return okv
}
