package sx

import (
	"fmt"
	"go/types"
	"strings"

	"symgo/smt"
)

// The vf_* primitives a harness calls. Natively (replay) they have ordinary bodies reading a model;
// under symgo they are intercepted here by name.

func registerVF(e *Engine) {
	vf := map[string]intrinsicFn{}
	e.vf = vf
	mkVar := func(k types.BasicKind) intrinsicFn {
		return func(fr *frame, args []value) value {
			m := fr.m
			name := m.concreteString(args[0], "symbol name")
			v := m.newVar(name, kindWidth(k), kindSigned(k))
			return &sym{t: v, k: k}
		}
	}
	vf["vf_Bool"] = mkVar(types.Bool)
	vf["vf_Int"] = mkVar(types.Int)
	vf["vf_Int32"] = mkVar(types.Int32)
	vf["vf_Int64"] = mkVar(types.Int64)
	vf["vf_Uint32"] = mkVar(types.Uint32)
	vf["vf_Uint8"] = mkVar(types.Uint8)
	vf["vf_Uint16"] = mkVar(types.Uint16)
	mkNarrow := func(k types.BasicKind) intrinsicFn {
		return func(fr *frame, args []value) value {
			m := fr.m
			name := m.concreteString(args[0], "symbol name")
			bits := int(asInt64(args[1]))
			if bits <= 0 {
				return concreteOfKind(k, 0)
			}
			v := m.newVar(name, bits, false)
			return &sym{t: m.pool.Zext(v, kindWidth(k)), k: k}
		}
	}
	// non-negative values below 2^bits, zero-extended to the Go width (cheap for the solver)
	vf["vf_Int64N"] = mkNarrow(types.Int64)
	vf["vf_Int32N"] = mkNarrow(types.Int32)
	vf["vf_IntN"] = mkNarrow(types.Int)
	vf["vf_Uint32N"] = mkNarrow(types.Uint32)
	// vf_Uint32Split(name, n): a 32-bit value whose top n bits are the variable name.hi and whose low
	// 32-n bits are name.lo (a CIDR base address with a concrete prefix length)
	vf["vf_Uint32Split"] = func(fr *frame, args []value) value {
		m := fr.m
		name := m.concreteString(args[0], "symbol name")
		n := int(asInt64(args[1]))
		switch {
		case n <= 0:
			return &sym{t: m.newVar(name+".lo", 32, false), k: types.Uint32}
		case n >= 32:
			return &sym{t: m.newVar(name+".hi", 32, false), k: types.Uint32}
		}
		hi := m.newVar(name+".hi", n, false)
		lo := m.newVar(name+".lo", 32-n, false)
		return &sym{t: m.pool.Concat(hi, lo), k: types.Uint32}
	}
	vf["vf_Choose"] = func(fr *frame, args []value) value {
		m := fr.m
		name := m.concreteString(args[0], "choice name")
		n := int(asInt64(args[1]))
		if v, ok := m.chooseVals[name]; ok {
			return v
		}
		k := m.choose(n, "choose:"+name)
		m.chooseVals[name] = k
		m.chooseOrder = append(m.chooseOrder, name)
		return k
	}
	vf["vf_DecStr"] = func(fr *frame, args []value) value {
		switch x := args[0].(type) {
		case *sym:
			return decStr(x.t, true)
		case int64:
			return fmt.Sprintf("%d", x)
		}
		panic("vf_DecStr")
	}
	vf["vf_IPStr"] = func(fr *frame, args []value) value {
		switch x := args[0].(type) {
		case *sym:
			return ip4Str(x.t)
		case uint32:
			return fmt.Sprintf("%d.%d.%d.%d", byte(x>>24), byte(x>>16), byte(x>>8), byte(x))
		}
		panic("vf_IPStr")
	}
	vf["vf_CidrStr"] = func(fr *frame, args []value) value {
		m := fr.m
		a := m.term(args[0])
		if n, ok := args[1].(int); ok {
			if at, ok := args[0].(uint32); ok {
				return fmt.Sprintf("%d.%d.%d.%d/%d", byte(at>>24), byte(at>>16), byte(at>>8), byte(at), n)
			}
			return &symStr{segs: []seg{{k: segIP4, t: a}, {k: segLit, lit: fmt.Sprintf("/%d", n)}}}
		}
		n := m.term(args[1])
		return &symStr{segs: []seg{{k: segIP4, t: a}, {k: segLit, lit: "/"}, {k: segDec, t: n, signed: true}}}
	}
	vf["vf_Assume"] = func(fr *frame, args []value) value {
		fr.m.assume(args[0])
		return nil
	}
	vf["vf_Assert"] = func(fr *frame, args []value) value {
		m := fr.m
		m.check(args[0], m.concreteString(args[1], "assert label"))
		return nil
	}
	vf["vf_And"] = func(fr *frame, args []value) value {
		m := fr.m
		var acc value = true
		for _, a := range variadic(args[0]) {
			acc = m.vAnd(acc, a)
		}
		return acc
	}
	vf["vf_Or"] = func(fr *frame, args []value) value {
		m := fr.m
		var acc value = false
		for _, a := range variadic(args[0]) {
			acc = m.vOr(acc, a)
		}
		return acc
	}
	vf["vf_Not"] = func(fr *frame, args []value) value { return fr.m.vNot(args[0]) }
	vf["vf_Implies"] = func(fr *frame, args []value) value { return fr.m.vOr(fr.m.vNot(args[0]), args[1]) }
	vf["vf_Iff"] = func(fr *frame, args []value) value {
		m := fr.m
		a, b := args[0], args[1]
		ab, aok := a.(bool)
		bb, bok := b.(bool)
		if aok && bok {
			return ab == bb
		}
		return m.mkBool(m.pool.Eq(m.term(a), m.term(b)))
	}
	ite := func(fr *frame, args []value) value { return fr.m.vIte(args[0], args[1], args[2]) }
	vf["vf_Ite64"] = ite
	vf["vf_IteBool"] = ite
	vf["vf_IteInt"] = ite
	vf["vf_Observe"] = func(fr *frame, args []value) value {
		m := fr.m
		m.observed = append(m.observed, rawObs{label: m.concreteString(args[0], "observe label"), v: unbox(args[1])})
		return nil
	}
	vf["vf_Known"] = func(fr *frame, args []value) value {
		m := fr.m
		id := m.concreteString(args[0], "known id")
		if _, ok := m.known[id]; !ok {
			m.knownOrder = append(m.knownOrder, id)
		}
		m.known[id] = m.term(args[1])
		return nil
	}
	vf["vf_SameObject"] = func(fr *frame, args []value) value {
		a, b := unbox(args[0]), unbox(args[1])
		switch a := a.(type) {
		case *omap:
			bb, ok := b.(*omap)
			return ok && a != nil && a == bb
		case *value:
			bb, ok := b.(*value)
			return ok && a != nil && a == bb
		case []value:
			bb, ok := b.([]value)
			if !ok || cap(a) == 0 || cap(bb) == 0 {
				return false
			}
			// same backing array?  compare the address of the last element of the full-capacity views
			return &a[:cap(a)][cap(a)-1] == &bb[:cap(bb)][cap(bb)-1]
		}
		return false
	}
	// vf_IPRangeLo/Hi(s): the bounds of an IP range rendered as "a.b.c.d-e.f.g.h" (or a single address)
	ipRange := func(hi bool) intrinsicFn {
		return func(fr *frame, args []value) value {
			m := fr.m
			switch s := args[0].(type) {
			case string:
				parts := strings.Split(s, "-")
				p := parts[0]
				if hi {
					p = parts[len(parts)-1]
				}
				v, ok := parseIP4Canonical(p)
				if !ok {
					panic(unsupported("vf_IPRange of " + s))
				}
				return v
			case *symStr:
				var toks []*smt.Term
				var concrete []uint32
				var order []bool // true = symbolic token
				for _, g := range s.segs {
					switch g.k {
					case segIP4:
						toks = append(toks, g.t)
						order = append(order, true)
					case segLit:
						for _, p := range strings.Split(g.lit, "-") {
							if v, ok := parseIP4Canonical(p); ok {
								concrete = append(concrete, v)
								order = append(order, false)
							}
						}
					}
				}
				if len(order) == 0 || len(order) > 2 {
					panic(unsupported("vf_IPRange of " + s.String()))
				}
				idx := 0
				if hi {
					idx = len(order) - 1
				}
				ti, ci := 0, 0
				for k := 0; k < idx; k++ {
					if order[k] {
						ti++
					} else {
						ci++
					}
				}
				if order[idx] {
					return m.mk(toks[ti], types.Uint32)
				}
				return concrete[ci]
			}
			panic("vf_IPRange")
		}
	}
	vf["vf_IPRangeLo"] = ipRange(false)
	vf["vf_IPRangeHi"] = ipRange(true)
	vf["vf_SameString"] = func(fr *frame, args []value) value {
		switch a := args[0].(type) {
		case string:
			b, ok := args[1].(string)
			return ok && a == b
		case *symStr:
			b, ok := args[1].(*symStr)
			return ok && a == b
		}
		return false
	}
	vf["vf_ExpectPanic"] = func(fr *frame, args []value) value {
		fr.m.expectPanic = true
		return nil
	}
	vf["vf_Stop"] = func(fr *frame, args []value) value { panic(pathAbort{"stop"}) }
	vf["vf_Cover"] = func(fr *frame, args []value) value {
		m := fr.m
		m.res.Labels["cover:"+m.concreteString(args[0], "cover label")]++
		return nil
	}
	// vf_Any(name, &obj, pools): obj becomes an unconstrained lazily materialised value
	vf["vf_Any"] = func(fr *frame, args []value) value {
		m := fr.m
		name := m.concreteString(args[0], "vf_Any name")
		pi := args[1].(iface)
		pt, ok := pi.t.Underlying().(*types.Pointer)
		if !ok {
			panic("vf_Any: second argument must be a pointer")
		}
		root := &lazyRoot{pools: map[string][]string{}, maxSlice: 2, maxDev: -1}
		if pm, ok := args[2].(*omap); ok && pm != nil {
			for _, e := range pm.entries {
				if e.live {
					root.pools[e.key.(string)] = m.concreteStrings(e.val, "pool")
				}
			}
		}
		if p, ok := root.pools["#maxslice"]; ok && len(p) == 1 {
			fmt.Sscanf(p[0], "%d", &root.maxSlice)
		}
		if p, ok := root.pools["#maxdev"]; ok && len(p) == 1 {
			fmt.Sscanf(p[0], "%d", &root.maxDev)
		}
		cell := pi.v.(*value)
		*cell = m.force(&lazyVal{path: name, t: pt.Elem(), root: root})
		return nil
	}
	// vf_Schedule(on): map-iteration order nondeterminism on/off for the code that follows (engine flag -mapsched)
	vf["vf_Schedule"] = func(fr *frame, args []value) value {
		fr.m.schedOff = !args[0].(bool)
		return nil
	}
	// vf_RegisterDir(name, infos, badAt, nested) string: an in-memory directory for the scanner stub; returns its path
	vf["vf_RegisterDir"] = func(fr *frame, args []value) value {
		m := fr.m
		path := "zzdir/" + m.concreteString(args[0], "dir name")
		reg := &dirReg{}
		if xs, ok := args[1].([]value); ok {
			reg.infos = append(reg.infos, xs...)
		}
		if xs, ok := args[2].([]value); ok {
			for _, x := range xs {
				k, ok := x.(int)
				if !ok {
					panic(unsupported("vf_RegisterDir: symbolic position"))
				}
				reg.badAt = append(reg.badAt, k)
			}
		}
		reg.nested = map[int]bool{}
		if len(args) > 3 {
			if xs, ok := args[3].([]value); ok {
				for _, x := range xs {
					k, ok := x.(int)
					if !ok {
						panic(unsupported("vf_RegisterDir: symbolic index"))
					}
					reg.nested[k] = true
				}
			}
		}
		if m.dirs == nil {
			m.dirs = map[string]*dirReg{}
		}
		m.dirs[path] = reg
		return path
	}
	// vf_CaptureStdout(f) string: the text f writes to standard output with fmt.Print*
	vf["vf_CaptureStdout"] = func(fr *frame, args []value) value {
		m := fr.m
		saved := m.stdout
		m.stdout = ""
		m.callFn(args[0])
		out := m.stdout
		if saved == nil {
			saved = ""
		}
		m.stdout = strConcat(saved, out)
		return out
	}
	vf["vf_Tier"] = func(fr *frame, args []value) value { return fr.m.eng.Tier }
	vf["vf_Symbolic"] = func(fr *frame, args []value) value { return true }
	// vf_NoPanic(f func(), label): a panic inside f is a violation of label
	vf["vf_NoPanic"] = func(fr *frame, args []value) value {
		m := fr.m
		label := m.concreteString(args[1], "label")
		m.res.Obligations++
		m.res.Labels[label]++
		ok := false
		func() {
			defer func() {
				if ok {
					return
				}
				r := recover()
				if _, isT := r.(targetPanic); !isT {
					panic(r)
				}
				m.violation("panic", label, m.pool.Bool(true))
				panic(pathAbort{"stopped after violated assertion"})
			}()
			m.callFn(args[0])
			ok = true
		}()
		m.res.Discharged++
		return nil
	}
	fieldOf := func(m *Machine, a value, name string) *value {
		i := a.(iface)
		pt, ok := i.t.Underlying().(*types.Pointer)
		if !ok {
			panic("vf_SetField: not a pointer")
		}
		st := pt.Elem().Underlying().(*types.Struct)
		for k := 0; k < st.NumFields(); k++ {
			if st.Field(k).Name() == name {
				p := i.v.(*value)
				return &(*p).(structure)[k]
			}
		}
		panic("vf_SetField: no field " + name)
	}
	vf["vf_SetField"] = func(fr *frame, args []value) value {
		m := fr.m
		f := fieldOf(m, args[0], m.concreteString(args[1], "field"))
		*f = copyVal(unbox(args[2]))
		return nil
	}
	vf["vf_GetField"] = func(fr *frame, args []value) value {
		m := fr.m
		name := m.concreteString(args[1], "field")
		i := args[0].(iface)
		st := i.t.Underlying().(*types.Pointer).Elem().Underlying().(*types.Struct)
		for k := 0; k < st.NumFields(); k++ {
			if st.Field(k).Name() == name {
				return iface{t: st.Field(k).Type(), v: copyVal(*fieldOf(m, args[0], name))}
			}
		}
		panic("vf_GetField")
	}
	// vf_Printed(): number of fmt.Print* calls so far (stdout is an environment stub)
	vf["vf_Printed"] = func(fr *frame, args []value) value { return len(fr.m.printed) }
}

type rawObs struct {
	label string
	v     value
}

func (m *Machine) renderObs(model map[string]uint64) []Obs {
	var out []Obs
	for _, o := range m.observed {
		var s string
		switch v := o.v.(type) {
		case *sym:
			bits := smt.Eval(v.t, model)
			s = fmt.Sprint(concreteOfKind(v.k, bits))
		case *symStr:
			s = evalRope(v, model)
		case string:
			s = v
		case bool, int, int8, int16, int32, int64, uint, uint8, uint16, uint32, uint64, uintptr:
			s = fmt.Sprint(v)
		default:
			s = toString(v)
		}
		out = append(out, Obs{Label: o.label, Val: s})
	}
	return out
}
