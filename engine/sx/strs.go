package sx

import (
	"fmt"
	"go/types"
	"strings"

	"symgo/smt"
)

// Symbolic strings: a rope of segments. A segment is a literal, the decimal rendering of an
// integer term (signed, of its width), the dotted-quad rendering of a 32-bit term, or an
// opaque token (error text etc. — never compared).
type segKind uint8

const (
	segLit segKind = iota
	segDec         // decimal of signed term t (width W)
	segIP4         // a.b.c.d of a 32-bit term
	segOpaque
)

type seg struct {
	k      segKind
	lit    string
	t      *smt.Term
	signed bool
}

type symStr struct {
	segs []seg
}

func (s *symStr) String() string {
	var sb strings.Builder
	for _, g := range s.segs {
		switch g.k {
		case segLit:
			sb.WriteString(g.lit)
		case segDec:
			sb.WriteString("<dec " + g.t.String() + ">")
		case segIP4:
			sb.WriteString("<ip4 " + g.t.String() + ">")
		case segOpaque:
			sb.WriteString("<opaque>")
		}
	}
	return sb.String()
}

func decStr(t *smt.Term, signed bool) *symStr {
	return &symStr{segs: []seg{{k: segDec, t: t, signed: signed}}}
}

func ip4Str(t *smt.Term) *symStr {
	return &symStr{segs: []seg{{k: segIP4, t: t}}}
}

func toRope(x value) *symStr {
	switch x := x.(type) {
	case *symStr:
		return x
	case string:
		if x == "" {
			return &symStr{}
		}
		return &symStr{segs: []seg{{k: segLit, lit: x}}}
	}
	panic(unsupported(fmt.Sprintf("toRope(%T)", x)))
}

func normRope(segs []seg) value {
	var out []seg
	for _, g := range segs {
		if g.k == segLit && g.lit == "" {
			continue
		}
		if g.k == segLit && len(out) > 0 && out[len(out)-1].k == segLit {
			out[len(out)-1].lit += g.lit
			continue
		}
		out = append(out, g)
	}
	if len(out) == 0 {
		return ""
	}
	if len(out) == 1 && out[0].k == segLit {
		return out[0].lit
	}
	return &symStr{segs: out}
}

func strConcat(x, y value) value {
	a, b := toRope(x), toRope(y)
	segs := append(append([]seg{}, a.segs...), b.segs...)
	return normRope(segs)
}

func isDigit(c byte) bool { return c >= '0' && c <= '9' }

// evalRope renders the rope under a model.
func evalRope(s *symStr, model map[string]uint64) string {
	var sb strings.Builder
	for _, g := range s.segs {
		switch g.k {
		case segLit:
			sb.WriteString(g.lit)
		case segDec:
			v := smt.Eval(g.t, model)
			if g.signed {
				sh := uint(64 - g.t.W)
				fmt.Fprintf(&sb, "%d", int64(v<<sh)>>sh)
			} else {
				fmt.Fprintf(&sb, "%d", v)
			}
		case segIP4:
			v := smt.Eval(g.t, model)
			fmt.Fprintf(&sb, "%d.%d.%d.%d", byte(v>>24), byte(v>>16), byte(v>>8), byte(v))
		case segOpaque:
			sb.WriteString("<opaque>")
		}
	}
	return sb.String()
}

// strEq decides x == y for a rope x and a rope or concrete string y.
//
// Supported when both ropes are "well separated": every token (decimal / dotted quad) is
// surrounded by literal text whose adjacent character cannot occur in a token rendering
// (digits, '.', and '-' when the decimal may be negative). Then two ropes are equal iff they have
// the same skeleton (same literals, same token kinds in the same places) and equal payloads;
// ropes with different skeletons are different strings.
func (m *Machine) strEq(x *symStr, y value) value {
	switch y := y.(type) {
	case string:
		return m.ropeEqConcrete(x, y)
	case *symStr:
		if !m.ropeUnambiguous(x) || !m.ropeUnambiguous(y) {
			panic(unsupported("ambiguous symbolic string comparison: " + x.String() + " vs " + y.String()))
		}
		if len(x.segs) != len(y.segs) {
			return false
		}
		var acc value = true
		for i := range x.segs {
			a, b := x.segs[i], y.segs[i]
			if a.k != b.k {
				return false
			}
			switch a.k {
			case segLit:
				if a.lit != b.lit {
					return false
				}
			case segDec:
				acc = m.vAnd(acc, m.mkBool(m.pool.Eq(m.widen64(a), m.widen64(b))))
			case segIP4:
				acc = m.vAnd(acc, m.mkBool(m.pool.Eq(a.t, b.t)))
			}
		}
		return acc
	}
	panic(unsupported(fmt.Sprintf("strEq with %T", y)))
}

func (m *Machine) widen64(g seg) *smt.Term {
	if g.signed {
		return m.pool.Sext(g.t, 64)
	}
	return m.pool.Zext(g.t, 64)
}

// decMayBeNegative: can the decimal token render a minus sign?
func (m *Machine) decMayBeNegative(g seg) bool {
	if !g.signed {
		return false
	}
	if m.lia.NonNegative(g.t) {
		return false
	}
	if v, ok := m.nonneg[g.t]; ok {
		return !v
	}
	// ask the solver whether the path condition allows a negative value
	neg := m.pool.Bin(smt.OpBvSlt, g.t, m.pool.BV(0, g.t.W))
	m.needBV(neg)
	m.sess.Push()
	m.sess.Assert(neg)
	r := m.sess.Check()
	m.sess.Pop()
	m.nonneg[g.t] = r == smt.Unsat
	return r != smt.Unsat
}

// ropeUnambiguous: no two tokens adjacent, no opaque parts; literals next to a token do not
// begin/end with characters a token rendering could contain.
func (m *Machine) ropeUnambiguous(s *symStr) bool {
	for i, g := range s.segs {
		if g.k == segLit {
			continue
		}
		if g.k == segOpaque {
			return false
		}
		tokc := func(c byte) bool { return isDigit(c) || c == '.' }
		if i > 0 {
			p := s.segs[i-1]
			if p.k != segLit {
				return false
			}
			c := p.lit[len(p.lit)-1]
			if tokc(c) || (c == '-' && g.k == segDec && m.decMayBeNegative(g)) {
				return false
			}
		}
		if i+1 < len(s.segs) {
			n := s.segs[i+1]
			if n.k != segLit {
				return false
			}
			if tokc(n.lit[0]) {
				return false
			}
		}
		if g.k == segDec && m.decMayBeNegative(g) {
			// a possibly negative number: '-' inside literals elsewhere could be confused
			for _, o := range s.segs {
				if o.k == segLit && strings.Contains(o.lit, "-") {
					return false
				}
			}
		}
	}
	return true
}

// ropeLess decides x < y when it is determined by the leading literal text.
func (m *Machine) ropeLess(x, y value) bool {
	lead := func(v value) (string, bool) { // leading literal, and whether it is the whole string
		switch v := v.(type) {
		case string:
			return v, true
		case *symStr:
			if len(v.segs) > 0 && v.segs[0].k == segLit {
				return v.segs[0].lit, false
			}
			return "", false
		}
		panic(unsupported("ropeLess operand"))
	}
	a, aw := lead(x)
	b, bw := lead(y)
	n := len(a)
	if len(b) < n {
		n = len(b)
	}
	if a[:n] != b[:n] {
		return a[:n] < b[:n]
	}
	if aw && bw {
		return a < b
	}
	if aw && len(a) <= len(b) { // a is a (proper or equal) prefix of b's literal lead: a < b unless equal
		if len(a) < len(b) {
			return true
		}
		return true // b continues with a token after the same literal: b is longer
	}
	if bw && len(b) <= len(a) {
		return false
	}
	panic(unsupported("ordering of symbolic strings not decided by their literal prefix: " + toString(x) + " vs " + toString(y)))
}

// ropeEqConcrete matches a concrete string against the rope pattern.
func (m *Machine) ropeEqConcrete(x *symStr, y string) value {
	if !m.ropeUnambiguous(x) {
		panic(unsupported("ambiguous symbolic string comparison: " + x.String()))
	}
	var acc value = true
	rest := y
	for i, g := range x.segs {
		switch g.k {
		case segLit:
			if !strings.HasPrefix(rest, g.lit) {
				return false
			}
			rest = rest[len(g.lit):]
		case segDec, segIP4:
			// token extends to the next literal (or end)
			end := len(rest)
			if i+1 < len(x.segs) {
				nl := x.segs[i+1].lit
				j := strings.Index(rest, nl)
				// a '-' separator could also be a sign; tokens here are separated by first occurrence
				if j < 0 {
					return false
				}
				if g.k == segDec && g.signed && j == 0 && strings.HasPrefix(nl, "-") {
					j2 := strings.Index(rest[1:], nl)
					if j2 < 0 {
						return false
					}
					j = j2 + 1
				}
				end = j
			}
			tok := rest[:end]
			rest = rest[end:]
			if g.k == segDec {
				v, ok := parseDecCanonical(tok, g.signed, g.t.W)
				if !ok {
					return false
				}
				acc = m.vAnd(acc, m.mkBool(m.pool.Eq(g.t, m.pool.BV(v, g.t.W))))
			} else {
				v, ok := parseIP4Canonical(tok)
				if !ok {
					return false
				}
				acc = m.vAnd(acc, m.mkBool(m.pool.Eq(g.t, m.pool.BV(uint64(v), 32))))
			}
		}
	}
	if rest != "" {
		return false
	}
	return acc
}

func parseDecCanonical(tok string, signed bool, w int) (uint64, bool) {
	if tok == "" {
		return 0, false
	}
	neg := false
	s := tok
	if s[0] == '-' {
		if !signed {
			return 0, false
		}
		neg = true
		s = s[1:]
	}
	if s == "" || (len(s) > 1 && s[0] == '0') || (neg && s == "0") {
		return 0, false
	}
	var v uint64
	for i := 0; i < len(s); i++ {
		if !isDigit(s[i]) {
			return 0, false
		}
		nv := v*10 + uint64(s[i]-'0')
		if nv < v || len(s) > 20 {
			return 0, false
		}
		v = nv
	}
	if signed {
		lim := uint64(1) << uint(w-1)
		if (!neg && v >= lim) || (neg && v > lim) {
			return 0, false
		}
		if neg {
			v = -v
		}
	} else if w < 64 && v >= uint64(1)<<uint(w) {
		return 0, false
	}
	if w < 64 {
		v &= (uint64(1) << uint(w)) - 1
	}
	return v, true
}

func parseIP4Canonical(tok string) (uint32, bool) {
	parts := strings.Split(tok, ".")
	if len(parts) != 4 {
		return 0, false
	}
	var v uint32
	for _, p := range parts {
		b, ok := parseDecCanonical(p, false, 8)
		if !ok {
			return 0, false
		}
		v = v<<8 | uint32(b)
	}
	return v, true
}

// concreteString forces a string value concrete (only possible for concrete strings).
func (m *Machine) concreteString(x value, why string) string {
	switch x := x.(type) {
	case string:
		return x
	case *symStr:
		panic(unsupported("symbolic string used where a concrete string is required: " + why + ": " + x.String()))
	}
	panic(fmt.Sprintf("concreteString(%T) at %s", x, why))
}

var _ = types.Bool
