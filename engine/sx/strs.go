package sx

import (
	"fmt"
	"go/types"
	"strings"

	"symgo/smt"
)

// Symbolic strings: a rope of segments. A segment is a literal, the decimal rendering of an
// integer term (signed, of its width), the dotted-quad rendering of a 32-bit term, or an
// opaque token (error text etc. — never compared).
type segKind uint8

const (
	segLit segKind = iota
	segDec         // decimal of signed term t (width W)
	segIP4         // a.b.c.d of a 32-bit term
	segOpaque
)

type seg struct {
	k      segKind
	lit    string
	t      *smt.Term
	signed bool
}

type symStr struct {
	segs []seg
}

func (s *symStr) String() string {
	var sb strings.Builder
	for _, g := range s.segs {
		switch g.k {
		case segLit:
			sb.WriteString(g.lit)
		case segDec:
			sb.WriteString("<dec " + g.t.String() + ">")
		case segIP4:
			sb.WriteString("<ip4 " + g.t.String() + ">")
		case segOpaque:
			sb.WriteString("<opaque>")
		}
	}
	return sb.String()
}

func decStr(t *smt.Term, signed bool) *symStr {
	return &symStr{segs: []seg{{k: segDec, t: t, signed: signed}}}
}

func ip4Str(t *smt.Term) *symStr {
	return &symStr{segs: []seg{{k: segIP4, t: t}}}
}

func toRope(x value) *symStr {
	switch x := x.(type) {
	case *symStr:
		return x
	case string:
		if x == "" {
			return &symStr{}
		}
		return &symStr{segs: []seg{{k: segLit, lit: x}}}
	}
	panic(unsupported(fmt.Sprintf("toRope(%T)", x)))
}

func normRope(segs []seg) value {
	var out []seg
	for _, g := range segs {
		if g.k == segLit && g.lit == "" {
			continue
		}
		if g.k == segLit && len(out) > 0 && out[len(out)-1].k == segLit {
			out[len(out)-1].lit += g.lit
			continue
		}
		out = append(out, g)
	}
	if len(out) == 0 {
		return ""
	}
	if len(out) == 1 && out[0].k == segLit {
		return out[0].lit
	}
	return &symStr{segs: out}
}

func strConcat(x, y value) value {
	a, b := toRope(x), toRope(y)
	segs := append(append([]seg{}, a.segs...), b.segs...)
	return normRope(segs)
}

func isDigit(c byte) bool { return c >= '0' && c <= '9' }

// evalRope renders the rope under a model.
func evalRope(s *symStr, model map[string]uint64) string {
	var sb strings.Builder
	for _, g := range s.segs {
		switch g.k {
		case segLit:
			sb.WriteString(g.lit)
		case segDec:
			v := smt.Eval(g.t, model)
			if g.signed {
				sh := uint(64 - g.t.W)
				fmt.Fprintf(&sb, "%d", int64(v<<sh)>>sh)
			} else {
				fmt.Fprintf(&sb, "%d", v)
			}
		case segIP4:
			v := smt.Eval(g.t, model)
			fmt.Fprintf(&sb, "%d.%d.%d.%d", byte(v>>24), byte(v>>16), byte(v>>8), byte(v))
		case segOpaque:
			sb.WriteString("<opaque>")
		}
	}
	return sb.String()
}

// strEq decides x == y for a rope x and a rope or concrete string y.
// Supported: identical segment shapes whose literals separate the tokens unambiguously
// (literals adjacent to a token start/end with a non-digit, non-dot, non-minus byte).
func (m *Machine) strEq(x *symStr, y value) value {
	switch y := y.(type) {
	case string:
		return m.ropeEqConcrete(x, y)
	case *symStr:
		if len(x.segs) != len(y.segs) {
			panic(unsupported("equality of symbolic strings of different shape: " + x.String() + " vs " + y.String()))
		}
		var acc value = true
		for i := range x.segs {
			a, b := x.segs[i], y.segs[i]
			if a.k != b.k {
				panic(unsupported("equality of symbolic strings of different shape: " + x.String() + " vs " + y.String()))
			}
			switch a.k {
			case segLit:
				if a.lit != b.lit {
					if !m.ropeUnambiguous(x) || !m.ropeUnambiguous(y) {
						panic(unsupported("ambiguous symbolic string comparison"))
					}
					// same shape, different literal: with unambiguous separators the strings differ
					// unless the literals only differ in a way tokens could absorb; literals are
					// required token-free at their borders, so they differ.
					return false
				}
			case segDec:
				if a.signed != b.signed || a.t.W != b.t.W {
					ta, tb := m.widen64(a), m.widen64(b)
					acc = m.vAnd(acc, m.mkBool(m.pool.Eq(ta, tb)))
				} else {
					acc = m.vAnd(acc, m.mkBool(m.pool.Eq(a.t, b.t)))
				}
			case segIP4:
				acc = m.vAnd(acc, m.mkBool(m.pool.Eq(a.t, b.t)))
			case segOpaque:
				panic(unsupported("comparison of opaque symbolic string"))
			}
		}
		if !m.ropeUnambiguous(x) {
			panic(unsupported("ambiguous symbolic string comparison: " + x.String()))
		}
		return acc
	}
	panic(unsupported(fmt.Sprintf("strEq with %T", y)))
}

func (m *Machine) widen64(g seg) *smt.Term {
	if g.signed {
		return m.pool.Sext(g.t, 64)
	}
	return m.pool.Zext(g.t, 64)
}

// ropeUnambiguous: no two tokens adjacent; literals next to a token do not begin/end with
// characters a token rendering could contain.
func (m *Machine) ropeUnambiguous(s *symStr) bool {
	tokc := func(c byte) bool { return isDigit(c) || c == '.' || c == '-' }
	for i, g := range s.segs {
		if g.k == segLit {
			continue
		}
		if g.k == segOpaque {
			return false
		}
		if i > 0 {
			p := s.segs[i-1]
			if p.k != segLit {
				return false
			}
			c := p.lit[len(p.lit)-1]
			// a '-' before a token is fine when the token is an IPv4 (ranges "a-b") or unsigned
			if tokc(c) && !(c == '-' && (g.k == segIP4 || !g.signed)) {
				return false
			}
		}
		if i+1 < len(s.segs) {
			n := s.segs[i+1]
			if n.k != segLit {
				return false
			}
			c := n.lit[0]
			if tokc(c) && c != '-' {
				return false
			}
		}
	}
	return true
}

// ropeEqConcrete matches a concrete string against the rope pattern.
func (m *Machine) ropeEqConcrete(x *symStr, y string) value {
	if !m.ropeUnambiguous(x) {
		panic(unsupported("ambiguous symbolic string comparison: " + x.String()))
	}
	var acc value = true
	rest := y
	for i, g := range x.segs {
		switch g.k {
		case segLit:
			if !strings.HasPrefix(rest, g.lit) {
				return false
			}
			rest = rest[len(g.lit):]
		case segDec, segIP4:
			// token extends to the next literal (or end)
			end := len(rest)
			if i+1 < len(x.segs) {
				nl := x.segs[i+1].lit
				j := strings.Index(rest, nl)
				// a '-' separator could also be a sign; tokens here are separated by first occurrence
				if j < 0 {
					return false
				}
				if g.k == segDec && g.signed && j == 0 && strings.HasPrefix(nl, "-") {
					j2 := strings.Index(rest[1:], nl)
					if j2 < 0 {
						return false
					}
					j = j2 + 1
				}
				end = j
			}
			tok := rest[:end]
			rest = rest[end:]
			if g.k == segDec {
				v, ok := parseDecCanonical(tok, g.signed, g.t.W)
				if !ok {
					return false
				}
				acc = m.vAnd(acc, m.mkBool(m.pool.Eq(g.t, m.pool.BV(v, g.t.W))))
			} else {
				v, ok := parseIP4Canonical(tok)
				if !ok {
					return false
				}
				acc = m.vAnd(acc, m.mkBool(m.pool.Eq(g.t, m.pool.BV(uint64(v), 32))))
			}
		}
	}
	if rest != "" {
		return false
	}
	return acc
}

func parseDecCanonical(tok string, signed bool, w int) (uint64, bool) {
	if tok == "" {
		return 0, false
	}
	neg := false
	s := tok
	if s[0] == '-' {
		if !signed {
			return 0, false
		}
		neg = true
		s = s[1:]
	}
	if s == "" || (len(s) > 1 && s[0] == '0') || (neg && s == "0") {
		return 0, false
	}
	var v uint64
	for i := 0; i < len(s); i++ {
		if !isDigit(s[i]) {
			return 0, false
		}
		nv := v*10 + uint64(s[i]-'0')
		if nv < v || len(s) > 20 {
			return 0, false
		}
		v = nv
	}
	if signed {
		lim := uint64(1) << uint(w-1)
		if (!neg && v >= lim) || (neg && v > lim) {
			return 0, false
		}
		if neg {
			v = -v
		}
	} else if w < 64 && v >= uint64(1)<<uint(w) {
		return 0, false
	}
	if w < 64 {
		v &= (uint64(1) << uint(w)) - 1
	}
	return v, true
}

func parseIP4Canonical(tok string) (uint32, bool) {
	parts := strings.Split(tok, ".")
	if len(parts) != 4 {
		return 0, false
	}
	var v uint32
	for _, p := range parts {
		b, ok := parseDecCanonical(p, false, 8)
		if !ok {
			return 0, false
		}
		v = v<<8 | uint32(b)
	}
	return v, true
}

// concreteString forces a string value concrete (only possible for concrete strings).
func (m *Machine) concreteString(x value, why string) string {
	switch x := x.(type) {
	case string:
		return x
	case *symStr:
		panic(unsupported("symbolic string used where a concrete string is required: " + why + ": " + x.String()))
	}
	panic(fmt.Sprintf("concreteString(%T) at %s", x, why))
}

var _ = types.Bool
