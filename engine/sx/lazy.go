package sx

import (
	"fmt"
	"go/types"
	"strings"
)

// Lazily materialised symbolic objects (generalised symbolic execution / lazy initialisation).
//
// vf_Any(name, &obj, pools) makes obj an unconstrained value: every part of it is a *lazyVal marker
// until the interpreted code actually uses it. Markers are immutable descriptors keyed by access
// path; forcing is memoised per path, so copies of a struct agree and pointers alias consistently.
// Forcing forks: a pointer is nil or a fresh object; a slice is nil, empty or of length 1..max; a map
// is nil, empty or holds one pooled entry; a string is one of a finite pool chosen by the path's
// field name; integers and booleans are fresh symbolic variables. Fields the code never reads are
// never constrained.

type lazyVal struct {
	path string
	t    types.Type
	root *lazyRoot
}

type lazyRoot struct {
	pools    map[string][]string // field-name suffix -> candidate strings (the first is the default)
	maxSlice int
	maxDev   int // at most this many non-default structural choices per path (<0: unlimited)
}

type lazyState struct {
	memo map[string]value
}

const lazyMaxDepth = 14

func pathDepth(p string) int { return strings.Count(p, ".") + strings.Count(p, "[") + strings.Count(p, "*") }

// chooseNamed is a structural decision recorded under a name (as vf_Choose). def is the default
// alternative (the populated, well-formed shape); a path may deviate from defaults at most
// root.maxDev times — "at most K simultaneous structural mutations of a populated object".
func (m *Machine) chooseNamed(root *lazyRoot, name string, n, def int) int {
	if v, ok := m.chooseVals[name]; ok {
		return v
	}
	k := def
	if root.maxDev < 0 || m.lazyDev < root.maxDev {
		k = m.choose(n, "lazy:"+name)
		if k != def {
			m.lazyDev++
		}
	}
	m.chooseVals[name] = k
	m.chooseOrder = append(m.chooseOrder, name)
	return k
}

func (r *lazyRoot) poolFor(path string) []string {
	// longest matching suffix of the field path (after the last '.'), else "*"
	field := path
	if i := strings.LastIndex(path, "."); i >= 0 {
		field = path[i+1:]
	}
	field = strings.TrimRight(field, "*")
	if i := strings.Index(field, "["); i >= 0 {
		field = field[:i]
	}
	if p, ok := r.pools[field]; ok {
		return p
	}
	if p, ok := r.pools["*"]; ok {
		return p
	}
	return []string{"", "a"}
}

// force materialises one level of a lazy marker.
func (m *Machine) force(lz *lazyVal) value {
	if m.lazy == nil {
		m.lazy = &lazyState{memo: map[string]value{}}
	}
	switch t := lz.t.Underlying().(type) {
	case *types.Struct:
		s := make(structure, t.NumFields())
		for i := range s {
			s[i] = &lazyVal{path: lz.path + "." + t.Field(i).Name(), t: t.Field(i).Type(), root: lz.root}
		}
		return s
	case *types.Array:
		a := make(array, t.Len())
		for i := range a {
			a[i] = &lazyVal{path: fmt.Sprintf("%s[%d]", lz.path, i), t: t.Elem(), root: lz.root}
		}
		return a
	}
	if v, ok := m.lazy.memo[lz.path]; ok {
		return v
	}
	v := m.force1(lz)
	m.lazy.memo[lz.path] = v
	return v
}

func (m *Machine) force1(lz *lazyVal) value {
	if pathDepth(lz.path) > lazyMaxDepth {
		return zero(lz.t)
	}
	switch t := lz.t.Underlying().(type) {
	case *types.Basic:
		switch {
		case t.Info()&types.IsBoolean != 0:
			return &sym{t: m.newVar(lz.path, 0, false), k: types.Bool}
		case t.Info()&types.IsInteger != 0:
			k := t.Kind()
			return &sym{t: m.newVar(lz.path, kindWidth(k), kindSigned(k)), k: k}
		case t.Kind() == types.String:
			pool := lz.root.poolFor(lz.path)
			return pool[m.chooseNamed(lz.root, lz.path+"#s", len(pool), 0)]
		}
		return zero(lz.t)
	case *types.Pointer:
		if m.chooseNamed(lz.root, lz.path+"#nil", 2, 0) == 1 {
			return (*value)(nil)
		}
		cell := new(value)
		*cell = &lazyVal{path: lz.path + "*", t: t.Elem(), root: lz.root}
		if _, isAgg := t.Elem().Underlying().(*types.Struct); isAgg {
			*cell = m.force((*cell).(*lazyVal))
		}
		return cell
	case *types.Slice:
		k := m.chooseNamed(lz.root, lz.path+"#len", lz.root.maxSlice+2, 2)
		switch k {
		case 0:
			return []value(nil)
		case 1:
			return []value{}
		}
		n := k - 1
		s := make([]value, n)
		for i := range s {
			var e value = &lazyVal{path: fmt.Sprintf("%s[%d]", lz.path, i), t: t.Elem(), root: lz.root}
			switch t.Elem().Underlying().(type) {
			case *types.Struct, *types.Array:
				e = m.force(e.(*lazyVal)) // slots hold aggregates by value
			}
			s[i] = e
		}
		return s
	case *types.Map:
		k := m.chooseNamed(lz.root, lz.path+"#map", 3, 2)
		if k == 0 {
			return (*omap)(nil)
		}
		om := makeMap(t.Key())
		if k == 2 {
			kb, kok := t.Key().Underlying().(*types.Basic)
			if kok && kb.Kind() == types.String {
				keys := lz.root.poolFor(lz.path + "#key")
				key := keys[m.chooseNamed(lz.root, lz.path+"#k", len(keys), 0)]
				var val value = &lazyVal{path: lz.path + "[" + key + "]", t: t.Elem(), root: lz.root}
				val = m.forceDeep1(val)
				m.mapInsert(om, key, val)
			}
		}
		return om
	case *types.Interface:
		return iface{}
	}
	return zero(lz.t)
}

// forceDeep1 forces a marker that is about to be stored where markers are not tracked (map values)
func (m *Machine) forceDeep1(v value) value {
	if lz, ok := v.(*lazyVal); ok {
		return m.force(lz)
	}
	return v
}

// forceLoaded is the hook where a value entering an SSA register is materialised.
func (m *Machine) forceLoaded(v value, t types.Type) value {
	if lz, ok := v.(*lazyVal); ok {
		return m.force(lz)
	}
	return v
}

// forceAll materialises every marker inside v (used before values reach engine code that walks them).
func (m *Machine) forceAll(v value, depth int) value {
	if depth > 40 {
		return v
	}
	switch x := v.(type) {
	case *lazyVal:
		return m.forceAll(m.force(x), depth+1)
	case structure:
		for i := range x {
			x[i] = m.forceAll(x[i], depth+1)
		}
	case array:
		for i := range x {
			x[i] = m.forceAll(x[i], depth+1)
		}
	case []value:
		for i := range x {
			x[i] = m.forceAll(x[i], depth+1)
		}
	case iface:
		return iface{t: x.t, v: m.forceAll(x.v, depth+1)}
	}
	return v
}
