package sx

import "go/types"

// lazyState: lazily materialised symbolic objects (see DESIGN 2.5). Filled in by lazy objects support.
type lazyState struct{}

// forceLoaded is the hook where a lazily initialised value entering an SSA register is materialised.
func (m *Machine) forceLoaded(v value, t types.Type) value { return v }
