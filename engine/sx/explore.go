package sx

import (
	"fmt"
	"math/rand"
	"os"
	"go/types"
	"runtime/debug"
	"sort"
	"strings"
	"sync"
	"time"

	"golang.org/x/tools/go/ssa"

	"symgo/smt"
)

// Engine holds what is shared by all paths of all harnesses: the SSA program and configuration.
type Engine struct {
	Prog          *ssa.Program
	MaxSteps      int
	MaxConcretize int
	MaxPaths      int
	MaxViolations int
	MapSchedule   bool
	MaxSchedDev   int // max number of map-iteration sites deviating from offset 0
	Verbose       bool
	Trace         bool
	Workers       int
	SolverTimeout int // ms
	CrossTimeout  int // ms, second solver
	LIASolver     string
	CrossSolver   string
	CrossCheck    bool
	Tier          int
	Seed          int64
	WallLimit     time.Duration
	PathWall      time.Duration
	InitPrefixes  []string // packages (path prefixes) whose initialisers are executed
	Coverage      map[string]int
	covMu         sync.Mutex
	fnInfos       sync.Map

	intrinsics         map[string]intrinsicFn
	vf                 map[string]intrinsicFn
	runtimeErrorString types.Type
}

type intrinsicFn func(fr *frame, args []value) value

func NewEngine(prog *ssa.Program) *Engine {
	e := &Engine{
		Prog: prog, MaxSteps: 5_000_000, MaxConcretize: 70, MaxPaths: 200000, MaxViolations: 300, PathWall: 120 * time.Second, Workers: 16,
		SolverTimeout: 20000, CrossTimeout: 5000, LIASolver: "cvc5", CrossSolver: "z3", CrossCheck: true, Coverage: map[string]int{},
	}
	e.intrinsics = map[string]intrinsicFn{}
	registerIntrinsics(e)
	if rt := prog.ImportedPackage("runtime"); rt != nil {
		e.runtimeErrorString = rt.Type("errorString").Object().Type()
	} else {
		e.runtimeErrorString = types.Typ[types.String]
	}
	return e
}

func (m *Machine) noteFunc(name string) { m.cov[name]++ }

func (e *Engine) mergeCov(c map[string]int) {
	e.covMu.Lock()
	for k, v := range c {
		e.Coverage[k] += v
	}
	e.covMu.Unlock()
}

func (e *Engine) initAllowed(p *ssa.Package) bool {
	if p == nil {
		return false
	}
	path := p.Pkg.Path()
	for _, pre := range e.InitPrefixes {
		if strings.HasPrefix(path, pre) {
			return true
		}
	}
	return false
}

// ---------------------------------------------------------------------------------------------
// results

type PanicInfo struct {
	Msg   string   `json:"msg"`
	Pos   string   `json:"pos"`
	Stack []string `json:"stack"`
}

type Violation struct {
	Harness  string            `json:"harness"`
	Kind     string            `json:"kind"` // assert | panic
	Label    string            `json:"label"`
	Model    map[string]uint64 `json:"model"`
	Choices  []int             `json:"decisions"`
	Panic    *PanicInfo        `json:"panic,omitempty"`
	Known    []string          `json:"known,omitempty"` // ids of known findings covering every counterexample on this path
	PathCond string            `json:"path_cond,omitempty"`
	Observed map[string]string `json:"observed,omitempty"`
}

type PathResult struct {
	Decisions   []int
	Status      string // ok | panic | infeasible | unsupported | budget | engine-error | stopped
	Detail      string
	Steps       int
	Obligations int // assertions reached (symbolic or concrete)
	Discharged  int
	Trivial     int // obligations that were concretely true
	Violations  []Violation
	Unknown     int // solver unknowns (feasibility or assertion)
	Labels      map[string]int
	Model       map[string]uint64
	Observed    []Obs
	PCSize      int
	NewWork     []workItem
	SolverDis   int // solver disagreements
	Pruned      int // alternatives refuted syntactically
	CrossQueries int
	CrossUnknown int
	Mode        string // lia | bv
	BVReason    string
	RangeRepairs int
}

type Obs struct {
	Label string
	Val   string // rendered under the final model
}

type workItem struct {
	prefix []int
	model  map[string]uint64
}

// Machine executes one path.
type Machine struct {
	eng     *Engine
	pool    *smt.Pool
	ws      *workerSolvers
	sess    *smt.Session // current session (integer view until a term needs bit-vectors)
	lia     *smt.LIA
	bvPushed bool
	globals map[*ssa.Global]*value

	prefix []int
	ndec   int
	pc     []*smt.Term
	model  map[string]uint64
	known  map[string]*smt.Term
	knownOrder []string

	steps     int
	depth     int
	fr        *frame
	lastPanic *PanicInfo
	res       *PathResult
	harness   string
	schedDev  int
	schedOff  bool // vf_Schedule(false): map iteration in insertion order (the reference run)
	onceDone  map[*value]bool
	lazy      *lazyState
	declared  map[string]bool
	pcSet     map[*smt.Term]bool
	expectPanic bool
	printed   []string
	stdout    value               // text written by fmt.Print* (a rope when it contains symbolic tokens)
	dirs      map[string]*dirReg // vf_RegisterDir: the in-memory directories of the scanner stub
	observed  []rawObs
	pending   []pendingOb
	builders  map[*value]value
	lazyDev   int
	t0        time.Time
	cov       map[string]int
	nonneg    map[*smt.Term]bool
	chooseVals map[string]int
	chooseOrder []string
}

func (m *Machine) declareVar(v *smt.Term) {
	if m.declared[v.Name] {
		return
	}
	m.declared[v.Name] = true
	m.sess.Declare(v)
}

// newVar creates (or returns) the symbolic variable with this name.
func (m *Machine) newVar(name string, w int, signed bool) *smt.Term {
	v := m.pool.VarS(name, w, signed)
	m.declareVar(v)
	return v
}

// repairRanges tries to establish, by solver queries under the path condition, the ranges that make t
// expressible in the integer view. Sound because the path condition only grows along a path.
func (m *Machine) repairRanges(t *smt.Term) bool {
	for round := 0; round < 4; round++ {
		needs := m.lia.Needs(t)
		if len(needs) == 0 {
			return true
		}
		progress := false
		for _, n := range needs {
			if r := m.sess.OutOfRange(n.T, n.Lo, n.Hi); r != smt.Unsat {
				if os.Getenv("SYMGO_DEBUG_REPAIR") != "" {
					fmt.Fprintf(os.Stderr, "repair failed (%v): %s in [%v,%v]\n", r, n.T.String(), n.Lo, n.Hi)
				}
				return false
			}
			m.lia.MarkRange(n.T, n.Lo, n.Hi)
			m.res.RangeRepairs++
			progress = true
		}
		if !progress {
			return false
		}
	}
	return m.sess.CanAssert(t)
}

// needBV switches the path to the bit-vector encoding if t is not expressible in the integer view.
func (m *Machine) needBV(ts ...*smt.Term) {
	if m.sess.Mode == smt.ModeBV {
		return
	}
	ok := true
	for _, t := range ts {
		if !m.sess.CanAssert(t) {
			// the static bounds may be too coarse: ask the solver whether the path condition keeps the
			// offending sub-terms inside the range the integer view needs
			if m.repairRanges(t) && m.sess.CanAssert(t) {
				continue
			}
			if os.Getenv("SYMGO_DEBUG_REPAIR") != "" {
				fmt.Fprintf(os.Stderr, "still not expressible: needs=%d %s\n", len(m.lia.Needs(t)), m.lia.Why(t))
			}
			ok = false
			s := t.String()
			if len(s) > 300 {
				s = s[:300]
			}
			pos, _ := m.site()
			m.res.BVReason = s + " @ " + pos
			break
		}
	}
	if ok {
		return
	}
	bv := m.ws.bv
	bv.SetLIA(m.lia)
	bv.Push()
	m.bvPushed = true
	for _, v := range m.allVars() {
		bv.Declare(v)
	}
	for _, t := range m.pc {
		bv.Assert(t)
	}
	m.sess = bv
	m.res.Mode = "bv"
}

func (m *Machine) allVars() []*smt.Term {
	var vs []*smt.Term
	for _, n := range m.pool.VarOrder {
		vs = append(vs, m.pool.Vars[n])
	}
	return vs
}

func (m *Machine) assertPC(t *smt.Term) {
	if t.IsTrue() || m.pcSet[t] {
		return
	}
	m.needBV(t)
	m.pc = append(m.pc, t)
	m.notePC(t)
	m.sess.Assert(t)
}

// notePC records the literal conjuncts of the path condition for cheap syntactic implication checks.
func (m *Machine) notePC(t *smt.Term) {
	m.pcSet[t] = true
	if t.Op == smt.OpAnd {
		for _, a := range t.Args {
			m.notePC(a)
		}
	}
}

// impliedFalse: the path condition syntactically contains the negation of c.
func (m *Machine) impliedFalse(c *smt.Term) bool {
	if c.IsFalse() {
		return true
	}
	if m.pcSet[m.pool.Not(c)] {
		return true
	}
	if c.Op == smt.OpAnd {
		for _, a := range c.Args {
			if m.pcSet[m.pool.Not(a)] {
				return true
			}
		}
	}
	return false
}

// decide takes an n-way decision. conds[i] is the condition of alternative i (nil = always
// possible). Alternatives must be exhaustive under the path condition.
func (m *Machine) decide(conds []*smt.Term, why string) int {
	idx := m.ndec
	m.ndec++
	if idx < len(m.prefix) {
		k := m.prefix[idx]
		if k >= len(conds) {
			panic(engineError{v: fmt.Sprintf("replay divergence at decision %d (%s): alternative %d of %d", idx, why, k, len(conds))})
		}
		if conds[k] != nil {
			m.assertPC(conds[k])
		}
		return k
	}
	// new decision: follow the model
	k0 := -1
	for i, c := range conds {
		if c == nil || smt.Eval(c, m.model) != 0 {
			k0 = i
			break
		}
	}
	if k0 < 0 {
		panic(engineError{v: "decide: no alternative satisfied by the witness model at " + why})
	}
	for j, c := range conds {
		if j == k0 {
			continue
		}
		np := append(append([]int{}, m.prefix...), j)
		if c == nil {
			m.res.NewWork = append(m.res.NewWork, workItem{prefix: np, model: m.model})
			continue
		}
		if m.impliedFalse(c) {
			m.res.Pruned++
			continue
		}
		m.needBV(c)
		r := m.sess.CheckAssuming(c)
		switch r {
		case smt.Sat:
			mod, err := m.sess.Model(m.allVars())
			if err != nil {
				m.res.Unknown++
			} else {
				m.res.NewWork = append(m.res.NewWork, workItem{prefix: np, model: mod})
			}
		case smt.Unknown:
			m.res.Unknown++
		case smt.Unsat:
			// the negation is implied by the path condition: remember it for syntactic pruning
			m.pcSet[m.pool.Not(c)] = true
		}
	}
	m.prefix = append(m.prefix, k0)
	if conds[k0] != nil {
		m.assertPC(conds[k0])
	}
	return k0
}

// truth decides a boolean value, forking when symbolic.
func (m *Machine) truth(c value, why string) bool {
	switch c := c.(type) {
	case bool:
		return c
	case *sym:
		k := m.decide([]*smt.Term{c.t, m.pool.Not(c.t)}, why)
		return k == 0
	}
	panic(fmt.Sprintf("truth(%T) at %s", c, why))
}

// choose is an unconditional n-way structural decision.
func (m *Machine) choose(n int, why string) int {
	if n <= 1 {
		return 0
	}
	return m.decide(make([]*smt.Term, n), why)
}

func (m *Machine) scheduleOffset(n int) int {
	if m.schedOff || m.schedDev >= m.eng.MaxSchedDev {
		return 0
	}
	c := n // rotations; plus the reversed order when that is not already a rotation
	if n > 2 {
		c = n + 1
	}
	k := m.choose(c, "map-order")
	if k != 0 {
		m.schedDev++
	}
	return k
}

// assume adds c to the path condition; the path ends if it becomes infeasible.
func (m *Machine) assume(c value) {
	if b, ok := c.(bool); !ok || !b {
		m.flush()
	}
	switch c := c.(type) {
	case bool:
		if !c {
			panic(pathAbort{"infeasible"})
		}
	case *sym:
		m.assertPC(c.t)
		if smt.Eval(c.t, m.model) != 0 {
			return
		}
		switch m.sess.Check() {
		case smt.Sat:
			mod, err := m.sess.Model(m.allVars())
			if err != nil {
				m.res.Unknown++
				panic(pathAbort{"solver-error"})
			}
			m.model = mod
		case smt.Unsat:
			panic(pathAbort{"infeasible"})
		default:
			m.res.Unknown++
			panic(pathAbort{"solver-unknown"})
		}
	default:
		panic(fmt.Sprintf("assume(%T)", c))
	}
}

func (m *Machine) pcString() string {
	var parts []string
	for _, t := range m.pc {
		s := t.String()
		if len(s) > 300 {
			s = s[:300] + "..."
		}
		parts = append(parts, s)
	}
	if len(parts) > 40 {
		parts = append(parts[:40], fmt.Sprintf("... (%d more)", len(parts)-40))
	}
	return strings.Join(parts, " ∧ ")
}

// queryBoth asks the primary solver (incrementally) and, if enabled, the cross-check solver
// (from scratch) whether pc ∧ extra is satisfiable.
func (m *Machine) queryBoth(extra ...*smt.Term) (smt.Result, map[string]uint64) {
	m.needBV(extra...)
	m.sess.Push()
	for _, t := range extra {
		m.sess.Assert(t)
	}
	r := m.sess.Check()
	var mod map[string]uint64
	if r == smt.Sat {
		var err error
		mod, err = m.sess.Model(m.allVars())
		if err != nil {
			r = smt.Unknown
		}
	}
	m.sess.Pop()
	if m.eng.CrossCheck && r != smt.Unknown {
		xs := m.ws.crossFor(m.eng, m.sess.Mode)
		xs.Mode = m.sess.Mode
		xs.SetLIA(m.lia)
		xs.Start()
		for _, v := range m.allVars() {
			xs.Declare(v)
		}
		for _, t := range m.pc {
			xs.Assert(t)
		}
		for _, t := range extra {
			xs.Assert(t)
		}
		r2 := xs.Check()
		m.res.CrossQueries++
		if r2 != r {
			if r2 == smt.Unknown {
				// the second solver gave up (time limit): reported, the primary verdict stands
				m.res.CrossUnknown++
				return r, mod
			}
			m.res.SolverDis++
			return smt.Unknown, nil
		}
	}
	return r, mod
}

// check registers an obligation: cond must hold on every input of this path. Obligations are
// discharged in one solver query when the path ends (or before the next assumption, which would
// otherwise weaken them): pc ∧ (¬A1 ∨ ... ∨ ¬An). Every continuation of the path flushes, so the
// union of the flushed queries covers the path condition at the assertion.
func (m *Machine) check(c value, label string) {
	m.res.Obligations++
	m.res.Labels[label]++
	switch c := c.(type) {
	case bool:
		if c {
			m.res.Discharged++
			m.res.Trivial++
			return
		}
		m.flush()
		m.violation("assert", label, m.pool.Bool(true))
		panic(pathAbort{"stopped after violated assertion"})
	case *sym:
		if m.pcSet[c.t] {
			m.res.Discharged++
			return
		}
		m.pending = append(m.pending, pendingOb{label: label, cond: c.t})
	default:
		panic(fmt.Sprintf("assert(%T)", c))
	}
}

type pendingOb struct {
	label string
	cond  *smt.Term
}

// flush discharges the pending obligations.
func (m *Machine) flush() {
	if len(m.pending) == 0 {
		return
	}
	obs := m.pending
	m.pending = nil
	var negs []*smt.Term
	for _, o := range obs {
		negs = append(negs, m.pool.Not(o.cond))
	}
	r, _ := m.queryBoth(m.pool.Or(negs...))
	switch r {
	case smt.Unsat:
		m.res.Discharged += len(obs)
		return
	case smt.Unknown:
		m.res.Unknown++
		return
	}
	// some obligation fails: decide each one
	for i, o := range obs {
		r, _ := m.queryBoth(negs[i])
		switch r {
		case smt.Unsat:
			m.res.Discharged++
		case smt.Unknown:
			m.res.Unknown++
		case smt.Sat:
			m.violation("assert", o.label, negs[i])
		}
	}
}

// violation records a counterexample of pc ∧ bad, taking known-finding regions into account.
func (m *Machine) violation(kind, label string, bad *smt.Term) {
	v := Violation{Harness: m.harness, Kind: kind, Label: label, Choices: append([]int{}, m.prefix...), PathCond: m.pcString()}
	if kind == "panic" {
		v.Panic = m.lastPanic
	}
	// outside every known region?
	var outside []*smt.Term
	outside = append(outside, bad)
	for _, id := range m.knownOrder {
		outside = append(outside, m.pool.Not(m.known[id]))
	}
	r, mod := m.queryBoth(outside...)
	switch r {
	case smt.Sat:
		v.Model = mod
	case smt.Unknown:
		m.res.Unknown++
		return
	case smt.Unsat:
		// every counterexample lies in a known region: find which
		for _, id := range m.knownOrder {
			r2, mod2 := m.queryBoth(bad, m.known[id])
			if r2 == smt.Sat {
				v.Known = append(v.Known, id)
				if v.Model == nil {
					v.Model = mod2
				}
			}
		}
		if len(v.Known) == 0 {
			// bad itself infeasible (cannot happen: caller established sat) — treat as unknown
			m.res.Unknown++
			return
		}
	}
	m.res.Violations = append(m.res.Violations, v)
}

// ---------------------------------------------------------------------------------------------
// running

type HarnessResult struct {
	Name        string
	Paths       int
	ByStatus    map[string]int
	Obligations int
	Discharged  int
	Trivial     int
	Unknown     int
	SolverDis   int
	Violations  []Violation
	Labels      map[string]int
	Unsupported map[string]int
	Steps       int64
	Decisions   int64
	MaxPC       int
	Samples     []PathSample
	Wall        time.Duration
	Queries     map[string][3]int
	SolverTime  map[string]time.Duration
	SolverErrs  []string
	Truncated   bool
	StoppedOnViolations bool
	CrossQueries int
	CrossUnknown int
	Pruned      int
	ByMode      map[string]int
	BVReasons   []string
	Models      []PathModel // per completed path, for native validation
}

type PathSample struct {
	Decisions []int             `json:"decisions"`
	Status    string            `json:"status"`
	Model     map[string]uint64 `json:"model"`
	Observed  map[string]string `json:"observed,omitempty"`
	Oblig     int               `json:"obligations"`
}

type PathModel struct {
	Decisions []int
	Status    string
	Model     map[string]uint64
	Observed  []Obs
	PanicFn   string
}

// RunHarness explores all paths of fn (a niladic function).
func (e *Engine) RunHarness(fn *ssa.Function, keepModels int) *HarnessResult {
	t0 := time.Now()
	hr := &HarnessResult{Name: fn.Name(), ByStatus: map[string]int{}, ByMode: map[string]int{}, Labels: map[string]int{}, Unsupported: map[string]int{},
		Queries: map[string][3]int{}, SolverTime: map[string]time.Duration{}}
	var mu sync.Mutex
	cond := sync.NewCond(&mu)
	work := []workItem{{prefix: nil, model: map[string]uint64{}}}
	active := 0
	started := 0
	eligible := 0
	unattributed := 0
	rng := rand.New(rand.NewSource(e.Seed + int64(len(fn.Name()))))
	nw := e.Workers
	if nw < 1 {
		nw = 1
	}
	var wg sync.WaitGroup
	for w := 0; w < nw; w++ {
		wg.Add(1)
		go func(w int) {
			defer wg.Done()
			var ws *workerSolvers
			defer func() {
				mu.Lock()
				for _, s := range ws.all() {
					if s != nil {
						q := hr.Queries[s.Role]
						for i := range q {
							q[i] += s.Queries[i]
						}
						hr.Queries[s.Role] = q
						hr.SolverTime[s.Role] += s.Time
						if len(hr.SolverErrs) < 20 {
							hr.SolverErrs = append(hr.SolverErrs, realSolverErrors(s)...)
						}
						s.Close()
					}
				}
				mu.Unlock()
			}()
			for {
				mu.Lock()
				for len(work) == 0 && active > 0 {
					cond.Wait()
				}
				if len(work) == 0 && active == 0 {
					mu.Unlock()
					cond.Broadcast()
					return
				}
				if unattributed >= e.MaxViolations && e.MaxViolations > 0 {
					// enough counterexamples: stop exploring (the run reports them; it is not a clean pass anyway)
					hr.StoppedOnViolations = true
					work = nil
					mu.Unlock()
					cond.Broadcast()
					if active == 0 {
						return
					}
					continue
				}
				if started >= e.MaxPaths || (e.WallLimit > 0 && time.Since(t0) > e.WallLimit) {
					hr.Truncated = true
					work = nil
					mu.Unlock()
					cond.Broadcast()
					if active == 0 {
						return
					}
					continue
				}
				// depth-first: take the most recent item
				it := work[len(work)-1]
				work = work[:len(work)-1]
				active++
				started++
				mu.Unlock()

				if ws != nil {
					for _, s := range ws.procs {
						if s.Dead() { // a solver process was lost: account for it and start fresh ones
							for _, o := range ws.procs {
								mu.Lock()
								q := hr.Queries[o.Role]
								for i := range q {
									q[i] += o.Queries[i]
								}
								hr.Queries[o.Role] = q
								hr.SolverTime[o.Role] += o.Time
								if len(hr.SolverErrs) < 20 {
									hr.SolverErrs = append(hr.SolverErrs, realSolverErrors(o)...)
								}
								mu.Unlock()
								o.Close()
							}
							ws = nil
							break
						}
					}
				}
				if ws == nil {
					ws = e.startSolvers()
				}
				pr := e.runPath(fn, it, ws)

				mu.Lock()
				active--
				work = append(work, pr.NewWork...)
				hr.Paths++
				if e.Verbose && hr.Paths%500 == 0 {
					fmt.Fprintf(os.Stderr, "  .. %s paths=%d queue=%d %v t=%.0fs\n", fn.Name(), hr.Paths, len(work), hr.ByStatus, time.Since(t0).Seconds())
				}
				hr.ByStatus[pr.Status]++
				hr.Obligations += pr.Obligations
				hr.Discharged += pr.Discharged
				hr.Trivial += pr.Trivial
				hr.Unknown += pr.Unknown
				hr.SolverDis += pr.SolverDis
				hr.CrossQueries += pr.CrossQueries
				hr.CrossUnknown += pr.CrossUnknown
				hr.Pruned += pr.Pruned
				hr.ByMode[pr.Mode]++
				if pr.BVReason != "" && len(hr.BVReasons) < 6 {
					hr.BVReasons = append(hr.BVReasons, pr.BVReason)
				}
				hr.Steps += int64(pr.Steps)
				hr.Decisions += int64(len(pr.Decisions))
				if pr.PCSize > hr.MaxPC {
					hr.MaxPC = pr.PCSize
				}
				for l, n := range pr.Labels {
					hr.Labels[l] += n
				}
				if pr.Status == "unsupported" || pr.Status == "engine-error" || pr.Status == "budget" {
					d := pr.Detail
					if len(d) > 400 {
						d = d[:400]
					}
					hr.Unsupported[pr.Status+": "+d]++
				}
				hr.Violations = append(hr.Violations, pr.Violations...)
				for _, v := range pr.Violations {
					if len(v.Known) == 0 {
						unattributed++ // counterexamples inside vf_Known regions never stop the exploration
					}
				}
				if len(hr.Samples) < 5 && (pr.Status == "ok" || pr.Status == "panic") {
					obs := map[string]string{}
					for _, o := range pr.Observed {
						obs[o.Label] = o.Val
					}
					hr.Samples = append(hr.Samples, PathSample{Decisions: pr.Decisions, Status: pr.Status, Model: pr.Model, Observed: obs, Oblig: pr.Obligations})
				}
				if (pr.Status == "ok" || pr.Status == "panic") && keepModels > 0 && len(pr.Violations) == 0 {
					// reservoir sample (seeded) over all completed paths
					eligible++
					pm := PathModel{Decisions: pr.Decisions, Status: pr.Status, Model: pr.Model, Observed: pr.Observed}
					if len(hr.Models) < keepModels {
						hr.Models = append(hr.Models, pm)
					} else if k := rng.Intn(eligible); k < keepModels {
						hr.Models[k] = pm
					}
				}
				mu.Unlock()
				cond.Broadcast()
			}
		}(w)
	}
	wg.Wait()
	hr.Wall = time.Since(t0)
	sort.Slice(hr.Violations, func(i, j int) bool {
		a, b := hr.Violations[i], hr.Violations[j]
		if a.Label != b.Label {
			return a.Label < b.Label
		}
		return fmt.Sprint(a.Choices) < fmt.Sprint(b.Choices)
	})
	return hr
}

// workerSolvers: the solver processes of one worker.
type workerSolvers struct {
	lia   *smt.Session // integer view, incremental
	bv    *smt.Session // bit-vectors, incremental
	cross map[string]*smt.Session // second solvers by vendor, one query at a time from scratch
	procs []*smt.Solver
}

// realSolverErrors: the error lines of a solver that make a run inconclusive. A second-opinion solver that was
// killed by the watchdog (it neither answered nor honoured its time limit) has already been counted as a
// cross-check timeout, the primary verdict stands: that is not an error line.
func realSolverErrors(s *smt.Solver) []string {
	var out []string
	for _, e := range s.Errors {
		if strings.HasPrefix(s.Role, "cross") && strings.Contains(e, "i/o timeout") {
			continue
		}
		out = append(out, e)
	}
	return out
}

// crossFor returns the second-opinion session: always the other vendor than the primary of the mode.
func (ws *workerSolvers) crossFor(e *Engine, mode smt.Mode) *smt.Session {
	vendor := "z3" // bit-vector primary is cvc5
	if mode == smt.ModeLIA && e.LIASolver == "z3" {
		vendor = "cvc5"
	}
	if s, ok := ws.cross[vendor]; ok {
		return s
	}
	p, err := smt.StartSolver(vendor, e.CrossTimeout)
	if err != nil {
		panic(err)
	}
	p.Role = "cross:" + vendor
	ws.procs = append(ws.procs, p)
	s := smt.NewSession(p, mode, nil)
	ws.cross[vendor] = s
	return s
}

func (ws *workerSolvers) all() []*smt.Solver {
	if ws == nil {
		return nil
	}
	return ws.procs
}

func (e *Engine) startSolvers() *workerSolvers {
	ws := &workerSolvers{cross: map[string]*smt.Session{}}
	mk := func(kind string, timeout int) *smt.Solver {
		s, err := smt.StartSolver(kind, timeout)
		if err != nil {
			panic(err)
		}
		s.Role = kind
		ws.procs = append(ws.procs, s)
		return s
	}
	l := mk(e.LIASolver, e.SolverTimeout)
	l.Role = "lia:" + e.LIASolver
	ws.lia = smt.NewSession(l, smt.ModeLIA, nil)
	b := mk("cvc5", e.SolverTimeout)
	b.Role = "bv:cvc5"
	ws.bv = smt.NewSession(b, smt.ModeBV, nil)
	return ws
}

func (e *Engine) runPath(fn *ssa.Function, it workItem, ws *workerSolvers) (pr *PathResult) {
	pr = &PathResult{Labels: map[string]int{}, Mode: "lia"}
	lia := smt.NewLIA()
	ws.lia.SetLIA(lia)
	m := &Machine{
		eng: e, pool: smt.NewPool(), ws: ws, sess: ws.lia, lia: lia,
		globals: map[*ssa.Global]*value{}, prefix: append([]int{}, it.prefix...), model: it.model,
		cov: map[string]int{}, builders: map[*value]value{}, known: map[string]*smt.Term{}, nonneg: map[*smt.Term]bool{}, res: pr, harness: fn.Name(), onceDone: map[*value]bool{},
		t0: time.Now(), declared: map[string]bool{}, pcSet: map[*smt.Term]bool{}, chooseVals: map[string]int{},
	}
	if m.model == nil {
		m.model = map[string]uint64{}
	}
	ws.lia.Push()
	defer func() {
		ws.lia.Pop()
		if m.bvPushed {
			ws.bv.Pop()
		}
		e.mergeCov(m.cov)
		pr.Decisions = m.prefix
		pr.Steps = m.steps
		pr.PCSize = len(m.pc)
		pr.Model = m.finalModel()
		pr.Observed = m.renderObs(m.model)
		for i := range pr.Violations {
			v := &pr.Violations[i]
			if v.Model != nil {
				for _, n := range m.chooseOrder {
					v.Model["choose:"+n] = uint64(m.chooseVals[n])
				}
				v.Observed = map[string]string{}
				for _, o := range m.renderObs(v.Model) {
					v.Observed[o.Label] = o.Val
				}
			}
		}
	}()
	defer func() {
		r := recover()
		// discharge what the path asserted before it ended (however it ended)
		func() {
			defer func() {
				if r2 := recover(); r2 != nil {
					pr.Unknown++
				}
			}()
			m.flush()
		}()
		if r == nil {
			pr.Status = "ok"
			return
		}
		switch r := r.(type) {
		case targetPanic:
			pr.Status = "panic"
			msg := m.panicText(r.v)
			if m.lastPanic == nil {
				m.lastPanic = &PanicInfo{Msg: msg}
			}
			pr.Detail = m.lastPanic.Msg + " @ " + m.lastPanic.Pos
			if !m.expectPanic {
				pr.Obligations++
				pr.Labels["no-panic"]++
				func() {
					defer func() {
						if r2 := recover(); r2 != nil {
							pr.Unknown++
						}
					}()
					m.violation("panic", "no-panic", m.pool.Bool(true))
				}()
			}
		case pathAbort:
			switch r.reason {
			case "infeasible":
				pr.Status = "infeasible"
			case "stopped after violated assertion", "stop":
				pr.Status = "ok"
			default:
				pr.Status = "budget"
				pr.Detail = r.reason
			}
		case unsupportedErr:
			pr.Status = "unsupported"
			pos, stack := m.site()
			pr.Detail = r.msg + " @ " + pos
			if len(stack) > 0 {
				pr.Detail += " in " + stack[0]
			}
		case engineError:
			pr.Status = "engine-error"
			pos, st := m.site()
			if len(st) > 4 {
				st = st[:4]
			}
			pr.Detail = fmt.Sprintf("%v @ %s in %v\n%s", r.v, pos, st, trimStack(r.stack))
		default:
			pr.Status = "engine-error"
			pos, _ := m.site()
			pr.Detail = fmt.Sprintf("%v @ %s\n%s", r, pos, trimStack(string(debug.Stack())))
		}
	}()
	// package initialisers
	if fn.Pkg != nil {
		if init := fn.Pkg.Func("init"); init != nil {
			m.callSSA(nil, 0, init, nil, nil)
		}
	}
	m.callSSA(nil, 0, fn, nil, nil)
	return pr
}

func trimStack(s string) string {
	lines := strings.Split(s, "\n")
	var out []string
	for _, l := range lines {
		if strings.Contains(l, "symgo/sx.") || strings.Contains(l, "/engine/sx/") {
			out = append(out, l)
		}
		if len(out) > 24 {
			break
		}
	}
	return strings.Join(out, "\n")
}

// finalModel: the witness model restricted to declared variables (satisfies the path condition).
func (m *Machine) finalModel() map[string]uint64 {
	out := map[string]uint64{}
	for _, n := range m.pool.VarOrder {
		out[n] = m.model[n]
	}
	for _, n := range m.chooseOrder {
		out["choose:"+n] = uint64(m.chooseVals[n])
	}
	return out
}
