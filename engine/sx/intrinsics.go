package sx

import (
	"crypto/sha1"
	"encoding/hex"
	"fmt"
	"go/types"
	"math/bits"
	"net"
	"reflect"
	"sort"
	"strconv"
	"strings"

	"golang.org/x/tools/go/ssa"
	"k8s.io/apimachinery/pkg/util/validation"

	"symgo/smt"
)

// ---------------------------------------------------------------------------------------------
// helpers to build interpreter values of library types

func (m *Machine) pkgType(pkg, name string) types.Type {
	p := m.eng.Prog.ImportedPackage(pkg)
	if p == nil {
		panic(unsupported("package not loaded: " + pkg))
	}
	t := p.Type(name)
	if t == nil {
		panic(unsupported("type not found: " + pkg + "." + name))
	}
	return t.Type()
}

func (m *Machine) pkgFunc(pkg, name string) *ssa.Function {
	p := m.eng.Prog.ImportedPackage(pkg)
	if p == nil {
		panic(unsupported("package not loaded: " + pkg))
	}
	f := p.Func(name)
	if f == nil {
		panic(unsupported("function not found: " + pkg + "." + name))
	}
	return f
}

// mkError builds an error value (*errors.errorString) with the given message (string or rope).
func (m *Machine) mkError(msg value) value {
	t := m.pkgType("errors", "errorString")
	p := new(value)
	*p = structure{msg}
	return iface{t: types.NewPointer(t), v: p}
}

func nilError() value { return iface{} }

// dirReg: a directory of the scanner stub: documents in file order; badAt[i]=k places an unreadable file before document k
type dirReg struct {
	infos  []value
	badAt  []int
	nested map[int]bool // documents placed in a sub-directory (seen only by a recursive scan, after the top-level files)
}

func strSlice(xs []string) value {
	if xs == nil {
		return []value(nil)
	}
	out := make([]value, len(xs))
	for i, s := range xs {
		out[i] = s
	}
	return out
}

func byteSlice(bs []byte) value {
	if bs == nil {
		return []value(nil)
	}
	out := make([]value, len(bs))
	for i, b := range bs {
		out[i] = b
	}
	return out
}

func (m *Machine) concreteStrings(v value, why string) []string {
	xs := v.([]value)
	out := make([]string, len(xs))
	for i, x := range xs {
		out[i] = m.concreteString(x, why)
	}
	return out
}

func concreteBytes(v value) ([]byte, bool) {
	xs := v.([]value)
	out := make([]byte, len(xs))
	for i, x := range xs {
		b, ok := x.(uint8)
		if !ok {
			return nil, false
		}
		out[i] = b
	}
	return out, true
}

// stringOf renders an interface-boxed value for formatting: returns a string, a rope, or nil when
// it has no natural text form.
func (m *Machine) textOf(a value, depth int) value {
	if depth > 4 {
		return "..."
	}
	switch a := a.(type) {
	case iface:
		if a.t == nil {
			return "<nil>"
		}
		// Error() / String() methods
		for _, name := range []string{"Error", "String"} {
			ms := m.eng.Prog.MethodSets.MethodSet(a.t)
			for i := 0; i < ms.Len(); i++ {
				sel := ms.At(i)
				if sel.Obj().Name() == name {
					sig := sel.Type().(*types.Signature)
					if sig.Params().Len() == 0 && sig.Results().Len() == 1 {
						if b, ok := sig.Results().At(0).Type().Underlying().(*types.Basic); ok && b.Kind() == types.String {
							if p, ok := a.v.(*value); ok && p == nil {
								return "<nil>"
							}
							f := m.eng.Prog.MethodValue(sel)
							if f != nil {
								return m.callFn(f, a.v)
							}
						}
					}
				}
			}
		}
		return m.textOf(a.v, depth+1)
	case string:
		return a
	case *symStr:
		return a
	case *sym:
		if a.k == types.Bool {
			return &symStr{segs: []seg{{k: segOpaque}}}
		}
		return decStr(a.t, kindSigned(a.k))
	case bool, int, int8, int16, int32, int64, uint, uint8, uint16, uint32, uint64, uintptr, float32, float64:
		return fmt.Sprint(a)
	case []value:
		var parts value = "["
		for i, e := range a {
			if i > 0 {
				parts = strConcat(parts, " ")
			}
			parts = strConcat(parts, m.textOf(e, depth+1))
		}
		return strConcat(parts, "]")
	case *value:
		if a == nil {
			return "<nil>"
		}
		return "&" + toString(*a)
	case *omap:
		// Go prints maps with sorted keys
		type kv struct {
			k string
			v value
		}
		var kvs []kv
		if a != nil {
			for _, e := range a.entries {
				if e.live {
					kvs = append(kvs, kv{m.concreteString(m.textOf(e.key, depth+1), "map key in fmt"), e.val})
				}
			}
		}
		sort.Slice(kvs, func(i, j int) bool { return kvs[i].k < kvs[j].k })
		var res value = "map["
		for i, e := range kvs {
			if i > 0 {
				res = strConcat(res, " ")
			}
			res = strConcat(strConcat(strConcat(res, e.k), ":"), m.textOf(e.v, depth+1))
		}
		return strConcat(res, "]")
	}
	return toString(a)
}

type fmtVerb struct {
	lit   string // literal text before the verb
	spec  string // full verb spec e.g. "%-10s" ("" for trailing literal)
	verb  byte
	plain bool
}

func parseFormat(f string) []fmtVerb {
	var out []fmtVerb
	var lit strings.Builder
	i := 0
	for i < len(f) {
		if f[i] != '%' {
			lit.WriteByte(f[i])
			i++
			continue
		}
		if i+1 < len(f) && f[i+1] == '%' {
			lit.WriteByte('%')
			i += 2
			continue
		}
		j := i + 1
		for j < len(f) && strings.ContainsRune("+-# 0123456789.*[]", rune(f[j])) {
			j++
		}
		if j >= len(f) {
			lit.WriteString(f[i:])
			break
		}
		out = append(out, fmtVerb{lit: lit.String(), spec: f[i : j+1], verb: f[j], plain: j == i+1})
		lit.Reset()
		i = j + 1
	}
	out = append(out, fmtVerb{lit: lit.String()})
	return out
}

// sprintf implements fmt.Sprintf over interpreter values; symbolic arguments yield ropes.
func (m *Machine) sprintf(format value, args []value) value {
	f := m.concreteString(format, "format string")
	verbs := parseFormat(f)
	var res value = ""
	ai := 0
	for _, v := range verbs {
		res = strConcat(res, v.lit)
		if v.spec == "" {
			continue
		}
		if ai >= len(args) {
			res = strConcat(res, "%!"+string(v.verb)+"(MISSING)")
			continue
		}
		a := args[ai]
		ai++
		res = strConcat(res, m.formatOne(v, a))
	}
	return res
}

func (m *Machine) formatOne(v fmtVerb, a value) value {
	inner := a
	if i, ok := a.(iface); ok {
		inner = i.v
	}
	switch v.verb {
	case 'd', 'c', 'x', 'X', 'o', 'b', 'U', 'e', 'f', 'g', 't', 'p':
		switch x := inner.(type) {
		case *sym:
			if v.verb == 'd' && v.plain && x.k != types.Bool {
				return decStr(x.t, kindSigned(x.k))
			}
			if v.verb == 't' && v.plain && x.k == types.Bool {
				if m.truth(x, "%t") {
					return "true"
				}
				return "false"
			}
			return &symStr{segs: []seg{{k: segOpaque}}}
		case bool, int, int8, int16, int32, int64, uint, uint8, uint16, uint32, uint64, uintptr, float32, float64:
			return fmt.Sprintf(v.spec, x)
		}
		return fmt.Sprintf(v.spec, toString(inner))
	case 'q':
		t := m.textOf(a, 0)
		if s, ok := t.(string); ok {
			return fmt.Sprintf(v.spec, s)
		}
		return strConcat(strConcat("\"", t), "\"")
	case 'T':
		if i, ok := a.(iface); ok && i.t != nil {
			return i.t.String()
		}
		return "<nil>"
	default: // v s w
		t := m.textOf(a, 0)
		if s, ok := t.(string); ok {
			if v.plain {
				return s
			}
			spec := v.spec
			if v.verb == 'w' {
				spec = spec[:len(spec)-1] + "v"
			}
			return fmt.Sprintf(spec, s)
		}
		return t
	}
}

func (m *Machine) sprint(args []value, ln bool) value {
	var res value = ""
	for i, a := range args {
		t := m.textOf(a, 0)
		if i > 0 {
			if ln {
				res = strConcat(res, " ")
			} else {
				// fmt.Sprint adds spaces between operands when neither is a string
				_, s1 := unbox(args[i-1]).(string)
				_, s2 := unbox(a).(string)
				if !s1 && !s2 {
					res = strConcat(res, " ")
				}
			}
		}
		res = strConcat(res, t)
	}
	if ln {
		res = strConcat(res, "\n")
	}
	return res
}

func unbox(a value) value {
	if i, ok := a.(iface); ok {
		return i.v
	}
	return a
}

func variadic(v value) []value {
	if v == nil {
		return nil
	}
	return v.([]value)
}

// ---------------------------------------------------------------------------------------------

func noop(fr *frame, args []value) value { return nil }

func registerIntrinsics(e *Engine) {
	in := e.intrinsics
	// --- fmt
	in["fmt.Sprintf"] = func(fr *frame, args []value) value { return fr.m.sprintf(args[0], variadic(args[1])) }
	in["fmt.Sprint"] = func(fr *frame, args []value) value { return fr.m.sprint(variadic(args[0]), false) }
	in["fmt.Sprintln"] = func(fr *frame, args []value) value { return fr.m.sprint(variadic(args[0]), true) }
	in["fmt.Errorf"] = func(fr *frame, args []value) value {
		m := fr.m
		msg := m.sprintf(args[0], variadic(args[1]))
		f := m.concreteString(args[0], "format")
		if strings.Contains(f, "%w") {
			// wrap the first error argument matching %w
			verbs := parseFormat(f)
			ai := 0
			for _, v := range verbs {
				if v.spec == "" {
					continue
				}
				if v.verb == 'w' && ai < len(variadic(args[1])) {
					t := m.pkgType("fmt", "wrapError")
					p := new(value)
					*p = structure{msg, variadic(args[1])[ai]}
					return iface{t: types.NewPointer(t), v: p}
				}
				ai++
			}
		}
		return m.mkError(msg)
	}
	for _, n := range []string{"fmt.Printf", "fmt.Println", "fmt.Print", "fmt.Fprintf", "fmt.Fprintln", "fmt.Fprint"} {
		name := n
		in[name] = func(fr *frame, args []value) value {
			m := fr.m
			m.printed = append(m.printed, name)
			// standard output is an environment stub that remembers the text (read back by vf_CaptureStdout)
			var text value
			switch name {
			case "fmt.Printf":
				text = m.sprintf(args[0], variadic(args[1]))
			case "fmt.Println":
				text = strConcat(m.sprint(variadic(args[0]), true), "\n")
			case "fmt.Print":
				text = m.sprint(variadic(args[0]), false)
			}
			if text != nil {
				if m.stdout == nil {
					m.stdout = ""
				}
				m.stdout = strConcat(m.stdout, text)
			}
			return tuple{0, nilError()}
		}
	}
	// the manifest scanner (file I/O, the cli-runtime builder) is environment: it returns the documents of a
	// directory registered with vf_RegisterDir, in order; an unreadable file is an error entry that is collected
	// (the builder's ContinueOnError) or ends the scan with the documents read so far (stopOnErr)
	in["github.com/np-guard/netpol-analyzer/pkg/manifests/fsscanner.GetResourceInfosFromDirPath"] = func(fr *frame, args []value) value {
		m := fr.m
		paths := args[0].([]value)
		if len(paths) != 1 {
			panic(unsupported("scanner stub: exactly one path expected"))
		}
		path := m.concreteString(paths[0], "scanned path")
		reg := m.dirs[path]
		if reg == nil {
			panic(unsupported("scanner stub: directory not registered with vf_RegisterDir: " + path))
		}
		stop, ok := args[2].(bool)
		if !ok {
			panic(unsupported("scanner stub: symbolic stopOnErr"))
		}
		recursive, ok := args[1].(bool)
		if !ok {
			panic(unsupported("scanner stub: symbolic recursive flag"))
		}
		infos, errs := []value{}, []value{}
		for i := 0; i <= len(reg.infos); i++ {
			for _, b := range reg.badAt {
				if b == i {
					e := m.mkError(fmt.Sprintf("error parsing %s/%03d-broken.yaml: yaml: did not find expected node content", path, i))
					if stop {
						return tuple{infos, []value{e}}
					}
					errs = append(errs, e)
				}
			}
			if i < len(reg.infos) && !reg.nested[i] {
				infos = append(infos, reg.infos[i])
			}
		}
		if recursive { // the sub-directory sorts after the numbered files
			for i := range reg.infos {
				if reg.nested[i] {
					infos = append(infos, reg.infos[i])
				}
			}
		}
		return tuple{infos, errs}
	}
	// --- errors
	in["errors.Is"] = func(fr *frame, args []value) value {
		m := fr.m
		err, target := args[0].(iface), args[1].(iface)
		for depth := 0; depth < 50; depth++ {
			if err.t == nil {
				return target.t == nil
			}
			if sameType(err.t, target.t) {
				if eq := m.equals(err.t, err.v, target.v); eq == true {
					return true
				}
			}
			f := m.eng.Prog.LookupMethod(err.t, nil, "Unwrap")
			if f == nil || f.Signature.Results().Len() != 1 {
				return false
			}
			if _, isSlice := f.Signature.Results().At(0).Type().Underlying().(*types.Slice); isSlice {
				return false
			}
			err = m.callFn(f, err.v).(iface)
		}
		return false
	}
	in["errors.Join"] = func(fr *frame, args []value) value {
		m := fr.m
		var msg value = ""
		n := 0
		for _, e := range variadic(args[0]) {
			if e.(iface).t == nil {
				continue
			}
			if n > 0 {
				msg = strConcat(msg, "\n")
			}
			msg = strConcat(msg, m.textOf(e, 0))
			n++
		}
		if n == 0 {
			return nilError()
		}
		return m.mkError(msg)
	}
	// --- sync / atomic: single-threaded
	for _, n := range []string{
		"(*sync.Mutex).Lock", "(*sync.Mutex).Unlock", "(*sync.RWMutex).Lock", "(*sync.RWMutex).Unlock",
		"(*sync.RWMutex).RLock", "(*sync.RWMutex).RUnlock",
	} {
		in[n] = noop
	}
	in["(*sync.Mutex).TryLock"] = func(fr *frame, args []value) value { return true }
	in["(*sync.Once).Do"] = func(fr *frame, args []value) value {
		m := fr.m
		p := args[0].(*value)
		if !m.onceDone[p] {
			m.onceDone[p] = true
			m.callFn(args[1])
		}
		return nil
	}
	// --- strconv
	in["strconv.Itoa"] = func(fr *frame, args []value) value {
		if s, ok := args[0].(*sym); ok {
			return decStr(s.t, true)
		}
		return strconv.Itoa(args[0].(int))
	}
	in["strconv.FormatInt"] = func(fr *frame, args []value) value {
		base := int(asInt64(args[1]))
		if s, ok := args[0].(*sym); ok {
			if base != 10 {
				panic(unsupported("FormatInt of symbolic value in base != 10"))
			}
			return decStr(s.t, true)
		}
		return strconv.FormatInt(args[0].(int64), base)
	}
	in["strconv.Atoi"] = func(fr *frame, args []value) value {
		m := fr.m
		switch s := args[0].(type) {
		case string:
			v, err := strconv.Atoi(s)
			if err != nil {
				return tuple{v, m.mkError(err.Error())}
			}
			return tuple{v, nilError()}
		case *symStr:
			if len(s.segs) == 1 && s.segs[0].k == segDec {
				g := s.segs[0]
				return tuple{m.mk(m.widen64(g), types.Int), nilError()}
			}
		}
		panic(unsupported("strconv.Atoi of " + toString(args[0])))
	}
	in["strconv.ParseInt"] = func(fr *frame, args []value) value {
		m := fr.m
		base := int(asInt64(args[1]))
		bitSize := int(asInt64(args[2]))
		switch s := args[0].(type) {
		case string:
			v, err := strconv.ParseInt(s, base, bitSize)
			if err != nil {
				return tuple{v, m.mkError(err.Error())}
			}
			return tuple{v, nilError()}
		case *symStr:
			if len(s.segs) == 1 && s.segs[0].k == segDec && (base == 10 || base == 0) {
				g := s.segs[0]
				t := m.widen64(g)
				if bitSize == 0 {
					bitSize = 64
				}
				if bitSize < 64 {
					lo := uint64(-(int64(1) << uint(bitSize-1)))
					hi := uint64(int64(1)<<uint(bitSize-1) - 1)
					inRange := m.pool.And(m.pool.Bin(smt.OpBvSle, m.pool.BV(lo, 64), t), m.pool.Bin(smt.OpBvSle, t, m.pool.BV(hi, 64)))
					if !m.truth(m.mkBool(inRange), "parseint-range") {
						neg := m.pool.Bin(smt.OpBvSlt, t, m.pool.BV(0, 64))
						clamp := m.pool.Ite(neg, m.pool.BV(lo, 64), m.pool.BV(hi, 64))
						return tuple{m.mk(clamp, types.Int64), m.mkError("strconv.ParseInt: value out of range")}
					}
				}
				return tuple{m.mk(t, types.Int64), nilError()}
			}
		}
		panic(unsupported("strconv.ParseInt of " + toString(args[0])))
	}
	// --- strings (concrete arguments; a few rope-aware)
	in["strings.Join"] = func(fr *frame, args []value) value {
		m := fr.m
		sep := m.concreteString(args[1], "strings.Join sep")
		var res value = ""
		for i, e := range args[0].([]value) {
			if i > 0 {
				res = strConcat(res, sep)
			}
			res = strConcat(res, e)
		}
		return res
	}
	bridge1 := func(name string, f func(a []string) value, n int) {
		in[name] = func(fr *frame, args []value) value {
			as := make([]string, n)
			for i := 0; i < n; i++ {
				as[i] = fr.m.concreteString(args[i], name)
			}
			return f(as)
		}
	}
	bridge1("strings.EqualFold", func(a []string) value { return strings.EqualFold(a[0], a[1]) }, 2)
	in["strings.Contains"] = func(fr *frame, args []value) value {
		m := fr.m
		sub := m.concreteString(args[1], "strings.Contains needle")
		switch s := args[0].(type) {
		case string:
			return strings.Contains(s, sub)
		case *symStr:
			if sub == "" {
				return true
			}
			for k := 0; k < len(sub); k++ {
				if isDigit(sub[k]) || sub[k] == '.' || sub[k] == '-' {
					panic(unsupported("strings.Contains on a symbolic string with a needle that tokens may contain"))
				}
			}
			for _, g := range s.segs {
				if g.k == segOpaque {
					panic(unsupported("strings.Contains on an opaque symbolic string"))
				}
				if g.k == segLit && strings.Contains(g.lit, sub) {
					return true
				}
			}
			return false
		}
		panic("strings.Contains")
	}
	bridge1("strings.HasPrefix", func(a []string) value { return strings.HasPrefix(a[0], a[1]) }, 2)
	bridge1("strings.HasSuffix", func(a []string) value { return strings.HasSuffix(a[0], a[1]) }, 2)
	bridge1("strings.Index", func(a []string) value { return strings.Index(a[0], a[1]) }, 2)
	bridge1("strings.LastIndex", func(a []string) value { return strings.LastIndex(a[0], a[1]) }, 2)
	bridge1("strings.ToLower", func(a []string) value { return strings.ToLower(a[0]) }, 1)
	bridge1("strings.ToUpper", func(a []string) value { return strings.ToUpper(a[0]) }, 1)
	bridge1("strings.TrimSpace", func(a []string) value { return strings.TrimSpace(a[0]) }, 1)
	bridge1("strings.Split", func(a []string) value { return strSlice(strings.Split(a[0], a[1])) }, 2)
	bridge1("strings.Fields", func(a []string) value { return strSlice(strings.Fields(a[0])) }, 1)
	bridge1("strings.ReplaceAll", func(a []string) value { return strings.ReplaceAll(a[0], a[1], a[2]) }, 3)
	bridge1("strings.TrimPrefix", func(a []string) value { return strings.TrimPrefix(a[0], a[1]) }, 2)
	bridge1("strings.TrimSuffix", func(a []string) value { return strings.TrimSuffix(a[0], a[1]) }, 2)
	bridge1("strings.Trim", func(a []string) value { return strings.Trim(a[0], a[1]) }, 2)
	bridge1("strings.Count", func(a []string) value { return strings.Count(a[0], a[1]) }, 2)
	bridge1("strings.Compare", func(a []string) value { return strings.Compare(a[0], a[1]) }, 2)
	in["strings.Replace"] = func(fr *frame, args []value) value {
		m := fr.m
		return strings.Replace(m.concreteString(args[0], "Replace"), m.concreteString(args[1], "Replace"), m.concreteString(args[2], "Replace"), int(asInt64(args[3])))
	}
	in["strings.Repeat"] = func(fr *frame, args []value) value {
		return strings.Repeat(fr.m.concreteString(args[0], "Repeat"), int(asInt64(args[1])))
	}
	in["strings.IndexByte"] = func(fr *frame, args []value) value {
		return strings.IndexByte(fr.m.concreteString(args[0], "IndexByte"), args[1].(byte))
	}
	// --- sort
	in["sort.Strings"] = func(fr *frame, args []value) value {
		xs := args[0].([]value)
		allConcrete := true
		for _, x := range xs {
			if _, ok := x.(string); !ok {
				allConcrete = false
			}
		}
		if allConcrete {
			ss := fr.m.concreteStrings(xs, "sort.Strings")
			sort.Strings(ss)
			for i := range xs {
				xs[i] = ss[i]
			}
			return nil
		}
		// insertion sort; the order must be decided by literal prefixes
		for i := 1; i < len(xs); i++ {
			for j := i; j > 0 && fr.m.ropeLess(xs[j], xs[j-1]); j-- {
				xs[j], xs[j-1] = xs[j-1], xs[j]
			}
		}
		return nil
	}
	in["sort.Ints"] = func(fr *frame, args []value) value {
		xs := args[0].([]value)
		is := make([]int, len(xs))
		for i, x := range xs {
			c, ok := x.(int)
			if !ok {
				panic(unsupported("sort.Ints over symbolic ints"))
			}
			is[i] = c
		}
		sort.Ints(is)
		for i := range xs {
			xs[i] = is[i]
		}
		return nil
	}
	sortSlice := func(stable bool) intrinsicFn {
		return func(fr *frame, args []value) value {
			m := fr.m
			xs := args[0].(iface).v.([]value)
			less := args[1]
			swap := &nativeFn{name: "swap", fn: func(_ *frame, a []value) value {
				i, j := a[0].(int), a[1].(int)
				xs[i], xs[j] = xs[j], xs[i]
				return nil
			}}
			n := len(xs)
			data := structure{less, swap}
			if stable {
				m.callFn(m.pkgFunc("sort", "stable_func"), data, n)
			} else {
				limit := bits.Len(uint(n))
				m.callFn(m.pkgFunc("sort", "pdqsort_func"), data, 0, n, limit)
			}
			return nil
		}
	}
	in["sort.Slice"] = sortSlice(false)
	in["sort.SliceStable"] = sortSlice(true)
	// --- reflect
	in["reflect.DeepEqual"] = func(fr *frame, args []value) value {
		a, b := args[0].(iface), args[1].(iface)
		if a.t == nil || b.t == nil {
			return a.t == nil && b.t == nil
		}
		if !types.Identical(a.t, b.t) {
			return false
		}
		return fr.m.deepEqual(a.t, a.v, b.v, 0)
	}
	// --- net
	in["net.ParseCIDR"] = intrinsicParseCIDR
	in["net.ParseIP"] = intrinsicParseIP
	in["net.IPv4"] = func(fr *frame, args []value) value {
		out := make([]value, 16)
		for i := 0; i < 10; i++ {
			out[i] = uint8(0)
		}
		out[10], out[11] = uint8(0xff), uint8(0xff)
		copy(out[12:], args[:4])
		return out
	}
	in["(net.IP).String"] = func(fr *frame, args []value) value {
		m := fr.m
		ip := args[0].([]value)
		if bs, ok := concreteBytes(ip); ok {
			return net.IP(bs).String()
		}
		var four []value
		switch len(ip) {
		case 4:
			four = ip
		case 16:
			pre, ok := concreteBytes(ip[:12])
			if !ok || net.IP(append(pre, 0, 0, 0, 0)).To4() == nil {
				panic(unsupported("String of symbolic non-IPv4 address"))
			}
			four = ip[12:]
		default:
			panic(unsupported("String of symbolic IP of odd length"))
		}
		t := m.term(four[0])
		for _, b := range four[1:] {
			t = m.pool.Concat(t, m.term(b))
		}
		return ip4Str(t)
	}
	// --- k8s validation (regular expressions): called natively on concrete strings
	in["k8s.io/apimachinery/pkg/util/validation.IsQualifiedName"] = func(fr *frame, args []value) value {
		return strSlice(validation.IsQualifiedName(fr.m.concreteString(args[0], "IsQualifiedName")))
	}
	in["k8s.io/apimachinery/pkg/util/validation.IsValidLabelValue"] = func(fr *frame, args []value) value {
		return strSlice(validation.IsValidLabelValue(fr.m.concreteString(args[0], "IsValidLabelValue")))
	}
	in["k8s.io/apimachinery/pkg/util/validation.IsDNS1123Label"] = func(fr *frame, args []value) value {
		return strSlice(validation.IsDNS1123Label(fr.m.concreteString(args[0], "IsDNS1123Label")))
	}
	in["k8s.io/apimachinery/pkg/util/validation.IsDNS1123Subdomain"] = func(fr *frame, args []value) value {
		return strSlice(validation.IsDNS1123Subdomain(fr.m.concreteString(args[0], "IsDNS1123Subdomain")))
	}
	// protobuf size of a LabelSelector: 0 iff it has no labels and no expressions
	in["(*k8s.io/apimachinery/pkg/apis/meta/v1.LabelSelector).Size"] = func(fr *frame, args []value) value {
		p := args[0].(*value)
		if p == nil {
			return 0
		}
		if lz, ok := (*p).(*lazyVal); ok {
			*p = fr.m.force(lz)
		}
		s := (*p).(structure)
		for i := 0; i < 2; i++ {
			if lz, ok := s[i].(*lazyVal); ok {
				s[i] = fr.m.force(lz)
			}
		}
		n := s[0].(*omap).len()*8 + len(s[1].([]value))*8
		return n
	}
	// --- os / logging: environment with empty bodies
	in["os.Remove"] = func(fr *frame, args []value) value { return nilError() }
	// os.Stat: only asked about directories of the scanner stub (they exist)
	in["os.Stat"] = func(fr *frame, args []value) value {
		m := fr.m
		path := m.concreteString(args[0], "os.Stat path")
		if m.dirs[path] == nil {
			panic(unsupported("os.Stat of a path that is not a registered directory: " + path))
		}
		return tuple{iface{}, nilError()}
	}
	in["os.Getenv"] = func(fr *frame, args []value) value { return "" }
	in["os.LookupEnv"] = func(fr *frame, args []value) value { return tuple{"", false} }
	in["os.OpenFile"] = func(fr *frame, args []value) value {
		return tuple{(*value)(nil), fr.m.mkError("open: not available under symbolic execution")}
	}
	in["(*os.File).WriteString"] = func(fr *frame, args []value) value { return tuple{0, nilError()} }
	in["(*os.File).Close"] = func(fr *frame, args []value) value { return nilError() }
	in["log.Default"] = func(fr *frame, args []value) value { return (*value)(nil) }
	for _, n := range []string{"(*log.Logger).Printf", "(*log.Logger).Println", "(*log.Logger).Print", "log.Printf", "log.Println", "log.Print"} {
		in[n] = noop
	}
	in["log.Panic"] = func(fr *frame, args []value) value {
		m := fr.m
		msg := m.sprint(variadic(args[0]), false)
		m.notePanic("log.Panic: " + toString(msg))
		panic(targetPanic{iface{types.Typ[types.String], msg}})
	}
	in["log.Panicf"] = func(fr *frame, args []value) value {
		m := fr.m
		msg := m.sprintf(args[0], variadic(args[1]))
		m.notePanic("log.Panicf: " + toString(msg))
		panic(targetPanic{iface{types.Typ[types.String], msg}})
	}
	// --- crypto/sha1 + hex (pod label-set variant key): an unwritten digest only
	in["crypto/sha1.New"] = func(fr *frame, args []value) value {
		t := fr.m.pkgType("crypto/sha1", "digest")
		p := new(value)
		*p = zero(t)
		return iface{t: types.NewPointer(t), v: p}
	}
	in["(*crypto/sha1.digest).Sum"] = func(fr *frame, args []value) value {
		bs, ok := concreteBytes(args[1])
		if !ok {
			panic(unsupported("sha1 of symbolic bytes"))
		}
		h := sha1.New()
		return byteSlice(h.Sum(bs))
	}
	in["(*crypto/sha1.digest).Write"] = func(fr *frame, args []value) value {
		panic(unsupported("sha1 digest Write"))
	}
	in["encoding/hex.EncodeToString"] = func(fr *frame, args []value) value {
		bs, ok := concreteBytes(args[0])
		if !ok {
			panic(unsupported("hex of symbolic bytes"))
		}
		return hex.EncodeToString(bs)
	}
	// --- strings.Builder (uses unsafe): content kept in a side table, ropes allowed
	sbGet := func(fr *frame, a value) (value, *value) {
		p := a.(*value)
		if p == nil {
			fr.m.nilDeref()
		}
		c, ok := fr.m.builders[p]
		if !ok {
			c = ""
		}
		return c, p
	}
	in["(*strings.Builder).Grow"] = noop
	in["(*strings.Builder).Reset"] = func(fr *frame, args []value) value {
		_, p := sbGet(fr, args[0])
		delete(fr.m.builders, p)
		return nil
	}
	in["(*strings.Builder).WriteString"] = func(fr *frame, args []value) value {
		c, p := sbGet(fr, args[0])
		fr.m.builders[p] = strConcat(c, args[1])
		n := 0
		if s, ok := args[1].(string); ok {
			n = len(s)
		}
		return tuple{n, nilError()}
	}
	in["(*strings.Builder).WriteByte"] = func(fr *frame, args []value) value {
		c, p := sbGet(fr, args[0])
		b, ok := args[1].(uint8)
		if !ok {
			panic(unsupported("Builder.WriteByte of a symbolic byte"))
		}
		fr.m.builders[p] = strConcat(c, string([]byte{b}))
		return nilError()
	}
	in["(*strings.Builder).WriteRune"] = func(fr *frame, args []value) value {
		c, p := sbGet(fr, args[0])
		r, ok := args[1].(int32)
		if !ok {
			panic(unsupported("Builder.WriteRune of a symbolic rune"))
		}
		fr.m.builders[p] = strConcat(c, string(r))
		return tuple{len(string(r)), nilError()}
	}
	in["(*strings.Builder).Write"] = func(fr *frame, args []value) value {
		c, p := sbGet(fr, args[0])
		bs, ok := concreteBytes(args[1])
		if !ok {
			panic(unsupported("Builder.Write of symbolic bytes"))
		}
		fr.m.builders[p] = strConcat(c, string(bs))
		return tuple{len(bs), nilError()}
	}
	in["(*strings.Builder).String"] = func(fr *frame, args []value) value {
		c, _ := sbGet(fr, args[0])
		return c
	}
	in["(*strings.Builder).Len"] = func(fr *frame, args []value) value {
		c, _ := sbGet(fr, args[0])
		return len(fr.m.concreteString(c, "Builder.Len"))
	}
	// field.Error rendering uses reflect on the bad value: approximate text (never branched on)
	in["(*k8s.io/apimachinery/pkg/util/validation/field.Error).ErrorBody"] = func(fr *frame, args []value) value {
		m := fr.m
		p := args[0].(*value)
		if p == nil {
			m.nilDeref()
		}
		st := (*p).(structure)
		var res value = st[0]
		res = strConcat(strConcat(res, ": "), m.textOf(st[2], 0))
		return strConcat(strConcat(res, ": "), st[3])
	}
	// --- environment stub: unstructured -> typed conversion (reflection-based in k8s). The harness registers
	// the outcome inside the unstructured map: "zz_fail" -> conversion error, "zz_typed" -> the typed object.
	in["(*k8s.io/apimachinery/pkg/runtime.unstructuredConverter).FromUnstructured"] = func(fr *frame, args []value) value {
		m := fr.m
		u := args[1].(*omap)
		if _, bad := m.mapLookup(u, "zz_fail"); bad {
			return m.mkError("environment: schema conversion failed")
		}
		tv, ok := m.mapLookup(u, "zz_typed")
		if !ok {
			panic(unsupported("FromUnstructured on an object the harness did not register"))
		}
		src := tv.(iface)
		dst := args[2].(iface)
		if !types.Identical(src.t, dst.t) {
			return m.mkError("environment: registered object has another type")
		}
		pt := src.t.Underlying().(*types.Pointer)
		store(pt.Elem(), dst.v.(*value), load(pt.Elem(), src.v.(*value)))
		return nilError()
	}
	in["time.Now"] = func(fr *frame, args []value) value { return zero(fr.m.pkgType("time", "Time")) }
	in["time.Since"] = func(fr *frame, args []value) value { return int64(0) }
	registerVF(e)
}

func (m *Machine) deepEqual(t types.Type, x, y value, depth int) value {
	if depth > 20 {
		panic(unsupported("reflect.DeepEqual recursion depth"))
	}
	switch tt := t.Underlying().(type) {
	case *types.Map:
		a, b := x.(*omap), y.(*omap)
		if (a == nil) != (b == nil) {
			return false
		}
		if a.len() != b.len() {
			return false
		}
		if a == nil {
			return true
		}
		var acc value = true
		for _, e := range a.entries {
			if !e.live {
				continue
			}
			bv, ok := m.mapLookup(b, e.key)
			if !ok {
				return false
			}
			acc = m.vAnd(acc, m.deepEqual(tt.Elem(), e.val, bv, depth+1))
			if acc == false {
				return false
			}
		}
		return acc
	case *types.Slice:
		a, b := x.([]value), y.([]value)
		if (a == nil) != (b == nil) || len(a) != len(b) {
			return false
		}
		var acc value = true
		for i := range a {
			acc = m.vAnd(acc, m.deepEqual(tt.Elem(), a[i], b[i], depth+1))
			if acc == false {
				return false
			}
		}
		return acc
	case *types.Pointer:
		a, b := x.(*value), y.(*value)
		if a == b {
			return true
		}
		if a == nil || b == nil {
			return false
		}
		return m.deepEqual(tt.Elem(), *a, *b, depth+1)
	case *types.Struct:
		a, b := x.(structure), y.(structure)
		var acc value = true
		for i := 0; i < tt.NumFields(); i++ {
			acc = m.vAnd(acc, m.deepEqual(tt.Field(i).Type(), a[i], b[i], depth+1))
			if acc == false {
				return false
			}
		}
		return acc
	case *types.Array:
		a, b := x.(array), y.(array)
		var acc value = true
		for i := range a {
			acc = m.vAnd(acc, m.deepEqual(tt.Elem(), a[i], b[i], depth+1))
			if acc == false {
				return false
			}
		}
		return acc
	case *types.Interface:
		a, b := x.(iface), y.(iface)
		if !sameType(a.t, b.t) {
			return false
		}
		if a.t == nil {
			return true
		}
		return m.deepEqual(a.t, a.v, b.v, depth+1)
	case *types.Signature:
		return isNilFunc(x) && isNilFunc(y)
	}
	return m.equals(t, x, y)
}

// --- net stubs ------------------------------------------------------------------------------

// cidrRopeLit: shape ip4(a) "/N" with a concrete prefix length
func cidrRopeLit(s *symStr) (a *smt.Term, n int, ok bool) {
	if len(s.segs) == 2 && s.segs[0].k == segIP4 && s.segs[1].k == segLit && strings.HasPrefix(s.segs[1].lit, "/") {
		v, err := strconv.Atoi(s.segs[1].lit[1:])
		if err == nil {
			return s.segs[0].t, v, true
		}
	}
	return nil, 0, false
}

func cidrRope(s *symStr) (a, n *smt.Term, ok bool) {
	// shape: ip4(a) "/" dec(n)
	if len(s.segs) == 3 && s.segs[0].k == segIP4 && s.segs[1].k == segLit && s.segs[1].lit == "/" && s.segs[2].k == segDec {
		return s.segs[0].t, s.segs[2].t, true
	}
	return nil, nil, false
}

func intrinsicParseCIDR(fr *frame, args []value) value {
	m := fr.m
	ipnetT := m.pkgType("net", "IPNet")
	mkNet := func(ip, mask value) value {
		p := new(value)
		*p = structure{ip, mask}
		return p
	}
	_ = ipnetT
	switch s := args[0].(type) {
	case string:
		ip, ipn, err := net.ParseCIDR(s)
		if err != nil {
			return tuple{[]value(nil), (*value)(nil), m.mkError(err.Error())}
		}
		return tuple{byteSlice(ip), mkNet(byteSlice(ipn.IP), byteSlice(ipn.Mask)), nilError()}
	case *symStr:
		p := m.pool
		bytesOf := func(t *smt.Term) []value {
			return []value{
				m.mk(p.Extract(t, 31, 24), types.Uint8), m.mk(p.Extract(t, 23, 16), types.Uint8),
				m.mk(p.Extract(t, 15, 8), types.Uint8), m.mk(p.Extract(t, 7, 0), types.Uint8),
			}
		}
		if a, n, ok := cidrRopeLit(s); ok {
			if n < 0 || n > 32 {
				return tuple{[]value(nil), (*value)(nil), m.mkError("invalid CIDR address")}
			}
			var mk uint64
			if n > 0 {
				mk = (uint64(0xffffffff) << uint(32-n)) & 0xffffffff
			}
			mask := p.BV(mk, 32)
			masked := p.Bin(smt.OpBvAnd, a, mask)
			ip16 := make([]value, 16)
			for i := 0; i < 10; i++ {
				ip16[i] = uint8(0)
			}
			ip16[10], ip16[11] = uint8(0xff), uint8(0xff)
			copy(ip16[12:], bytesOf(a))
			return tuple{ip16, mkNet(bytesOf(masked), bytesOf(mask)), nilError()}
		}
		if len(s.segs) == 1 && s.segs[0].k == segIP4 {
			return tuple{[]value(nil), (*value)(nil), m.mkError("invalid CIDR address")}
		}
		a, n, ok := cidrRope(s)
		if !ok {
			panic(unsupported("net.ParseCIDR of " + s.String()))
		}
		// contract: IPv4, 0 <= n <= 32 (the producer vf_CidrStr assumes it)
		n32 := p.Zext(p.Extract(n, 7, 0), 32)
		okRange := p.Bin(smt.OpBvUle, p.Zext(p.Extract(n, n.W-1, 0), 64), p.BV(32, 64))
		if n.W < 64 {
			okRange = p.Bin(smt.OpBvUle, p.Zext(n, 64), p.BV(32, 64))
		}
		if !m.truth(m.mkBool(okRange), "cidr-prefix-range") {
			return tuple{[]value(nil), (*value)(nil), m.mkError("invalid CIDR address")}
		}
		// mask = n==0 ? 0 : 0xffffffff << (32-n)
		sh := p.Bin(smt.OpBvSub, p.BV(32, 32), n32)
		mask := p.Bin(smt.OpBvShl, p.BV(0xffffffff, 32), sh)
		masked := p.Bin(smt.OpBvAnd, a, mask)
		ip16 := make([]value, 16)
		for i := 0; i < 10; i++ {
			ip16[i] = uint8(0)
		}
		ip16[10], ip16[11] = uint8(0xff), uint8(0xff)
		copy(ip16[12:], bytesOf(a))
		return tuple{ip16, mkNet(bytesOf(masked), bytesOf(mask)), nilError()}
	}
	panic(unsupported("net.ParseCIDR argument"))
}

func intrinsicParseIP(fr *frame, args []value) value {
	m := fr.m
	switch s := args[0].(type) {
	case string:
		return byteSlice(net.ParseIP(s))
	case *symStr:
		if len(s.segs) == 1 && s.segs[0].k == segIP4 {
			t := s.segs[0].t
			p := m.pool
			ip16 := make([]value, 16)
			for i := 0; i < 10; i++ {
				ip16[i] = uint8(0)
			}
			ip16[10], ip16[11] = uint8(0xff), uint8(0xff)
			ip16[12] = m.mk(p.Extract(t, 31, 24), types.Uint8)
			ip16[13] = m.mk(p.Extract(t, 23, 16), types.Uint8)
			ip16[14] = m.mk(p.Extract(t, 15, 8), types.Uint8)
			ip16[15] = m.mk(p.Extract(t, 7, 0), types.Uint8)
			return ip16
		}
		if _, _, ok := cidrRope(s); ok {
			return []value(nil) // a CIDR is not an IP address
		}
		if _, _, ok := cidrRopeLit(s); ok {
			return []value(nil)
		}
		panic(unsupported("net.ParseIP of " + s.String()))
	}
	panic(unsupported("net.ParseIP argument"))
}

var _ = reflect.TypeOf
