package smt

import (
	"fmt"
	"math/big"
	"strconv"
	"strings"
)

type Mode int

const (
	ModeLIA Mode = iota
	ModeBV
)

func (m Mode) String() string {
	if m == ModeLIA {
		return "lia"
	}
	return "bv"
}

// Session is an incremental conversation with a solver in one encoding (bit-vectors or the exact
// integer view of lia.go). Compound sub-terms are named with define-fun so that shared structure
// is sent once per scope.
type Session struct {
	S    *Solver
	Mode Mode
	lia  *LIA
	defs []map[*Term]string
	decl []map[string]bool
	n    int
}

func NewSession(s *Solver, mode Mode, lia *LIA) *Session {
	ss := &Session{S: s, Mode: mode, lia: lia}
	ss.Start()
	return ss
}

// Start resets the solver and the scope stack.
func (ss *Session) Start() {
	ss.S.send("(reset)")
	ss.S.send("(set-option :produce-models true)")
	if ss.Mode == ModeLIA {
		ss.S.send("(set-logic QF_LIA)")
	} else {
		ss.S.send("(set-logic QF_BV)")
	}
	ss.defs = []map[*Term]string{{}}
	ss.decl = []map[string]bool{{}}
}

func (ss *Session) SetLIA(l *LIA) { ss.lia = l }

func (ss *Session) Push() {
	ss.S.send("(push 1)")
	ss.defs = append(ss.defs, map[*Term]string{})
	ss.decl = append(ss.decl, map[string]bool{})
}

func (ss *Session) Pop() {
	ss.S.send("(pop 1)")
	ss.defs = ss.defs[:len(ss.defs)-1]
	ss.decl = ss.decl[:len(ss.decl)-1]
}

func (ss *Session) Depth() int { return len(ss.defs) - 1 }

func (ss *Session) declared(name string) bool {
	for _, d := range ss.decl {
		if d[name] {
			return true
		}
	}
	return false
}

func (ss *Session) Declare(v *Term) {
	if ss.declared(v.Name) {
		return
	}
	ss.decl[len(ss.decl)-1][v.Name] = true
	if ss.Mode == ModeLIA {
		ss.S.send(DeclLIA(v))
	} else {
		ss.S.send(Decl(v))
	}
}

// CanAssert reports whether t is expressible in this session's encoding.
func (ss *Session) CanAssert(t *Term) bool {
	if ss.Mode == ModeBV {
		return true
	}
	return ss.lia.boolOK(t)
}

func (ss *Session) Assert(t *Term) {
	ss.S.send("(assert " + ss.ref(t) + ")")
}

func (ss *Session) Check() Result { return ss.S.Check() }

// OutOfRange decides whether pc allows the integer view of t outside [lo,hi] (integer encoding only).
func (ss *Session) OutOfRange(t *Term, lo, hi *big.Int) Result {
	act := "act" + strconv.Itoa(ss.n)
	ss.n++
	r := ss.ref(t)
	ss.S.send("(declare-fun " + act + " () Bool)")
	ss.S.send("(assert (=> " + act + " (or (< " + r + " " + intLit(lo) + ") (> " + r + " " + intLit(hi) + "))))")
	return ss.S.CheckCmd("(check-sat-assuming (" + act + "))")
}

func (ss *Session) LIA() *LIA { return ss.lia }

// CheckAssuming decides pc ∧ t without opening a scope: t is guarded by a fresh activation literal
// and checked with check-sat-assuming, so the solver keeps what it learned about pc.
func (ss *Session) CheckAssuming(t *Term) Result {
	act := "act" + strconv.Itoa(ss.n)
	ss.n++
	ss.S.send("(declare-fun " + act + " () Bool)")
	ss.S.send("(assert (=> " + act + " " + ss.ref(t) + "))")
	return ss.S.CheckCmd("(check-sat-assuming (" + act + "))")
}

func (ss *Session) lookup(t *Term) (string, bool) {
	for i := len(ss.defs) - 1; i >= 0; i-- {
		if n, ok := ss.defs[i][t]; ok {
			return n, true
		}
	}
	return "", false
}

func (ss *Session) ref(t *Term) string {
	switch t.Op {
	case OpConst:
		if t.W == 0 {
			if t.Val != 0 {
				return "true"
			}
			return "false"
		}
		if ss.Mode == ModeLIA {
			return intLit(constInt(t))
		}
		return fmt.Sprintf("(_ bv%d %d)", t.Val, t.W)
	case OpVar:
		return quote(t.Name)
	}
	if n, ok := ss.lookup(t); ok {
		return n
	}
	body := ss.render(t)
	if t.size < 3 {
		return body
	}
	name := "d" + strconv.Itoa(ss.n)
	ss.n++
	sort := "Bool"
	if t.W > 0 {
		if ss.Mode == ModeLIA {
			sort = "Int"
		} else {
			sort = sortStr(t.W)
		}
	}
	ss.S.send("(define-fun " + name + " () " + sort + " " + body + ")")
	ss.defs[len(ss.defs)-1][t] = name
	return name
}

// refR renders a value-use operand: constants by the signed or unsigned reading of the comparison
func (ss *Session) refR(t *Term, signed bool) string {
	if t.IsConst() && t.W > 0 {
		if signed {
			return intLit(constIntSigned(t))
		}
		return new(big.Int).SetUint64(t.Val).String()
	}
	return ss.ref(t)
}

func (ss *Session) render(t *Term) string {
	if ss.Mode == ModeBV {
		var sb strings.Builder
		switch t.Op {
		case OpExtract:
			fmt.Fprintf(&sb, "((_ extract %d %d) %s)", t.Hi, t.Lo, ss.ref(t.Args[0]))
		case OpZext:
			fmt.Fprintf(&sb, "((_ zero_extend %d) %s)", t.W-t.Args[0].W, ss.ref(t.Args[0]))
		case OpSext:
			fmt.Fprintf(&sb, "((_ sign_extend %d) %s)", t.W-t.Args[0].W, ss.ref(t.Args[0]))
		default:
			sb.WriteByte('(')
			sb.WriteString(opNames[t.Op])
			for _, a := range t.Args {
				sb.WriteByte(' ')
				sb.WriteString(ss.ref(a))
			}
			sb.WriteByte(')')
		}
		return sb.String()
	}
	// integer view
	switch t.Op {
	case OpNot, OpAnd, OpOr, OpIte:
		var sb strings.Builder
		sb.WriteByte('(')
		sb.WriteString(opNames[t.Op])
		for _, a := range t.Args {
			sb.WriteByte(' ')
			sb.WriteString(ss.ref(a))
		}
		sb.WriteByte(')')
		return sb.String()
	case OpEq:
		if t.Args[0].W == 0 {
			return "(= " + ss.ref(t.Args[0]) + " " + ss.ref(t.Args[1]) + ")"
		}
		sg := ss.lia.EqSigned(t.Args[0], t.Args[1])
		return "(= " + ss.refR(t.Args[0], sg) + " " + ss.refR(t.Args[1], sg) + ")"
	case OpBvSlt:
		return "(< " + ss.refR(t.Args[0], true) + " " + ss.refR(t.Args[1], true) + ")"
	case OpBvUlt:
		return "(< " + ss.refR(t.Args[0], false) + " " + ss.refR(t.Args[1], false) + ")"
	case OpBvAdd:
		return "(+ " + ss.ref(t.Args[0]) + " " + ss.ref(t.Args[1]) + ")"
	case OpBvSub:
		return "(- " + ss.ref(t.Args[0]) + " " + ss.ref(t.Args[1]) + ")"
	case OpBvNeg:
		return "(- " + ss.ref(t.Args[0]) + ")"
	case OpBvMul:
		return "(* " + ss.ref(t.Args[0]) + " " + ss.ref(t.Args[1]) + ")"
	case OpZext, OpSext, OpExtract:
		return ss.ref(t.Args[0])
	case OpConcat:
		part := func(x *Term) string {
			if x.IsConst() {
				return new(big.Int).SetUint64(x.Val).String()
			}
			return ss.ref(x)
		}
		return "(+ (* " + part(t.Args[0]) + " " + pow2(t.Args[1].W).String() + ") " + part(t.Args[1]) + ")"
	}
	panic("smt: term not expressible in the integer view: " + opNames[t.Op])
}

// Model fetches the values of the variables after Sat, as bit patterns of the BV width.
func (ss *Session) Model(vars []*Term) (map[string]uint64, error) {
	var use []*Term
	for _, v := range vars {
		if ss.declared(v.Name) {
			use = append(use, v)
		}
	}
	if ss.Mode == ModeBV {
		return ss.S.Model(use)
	}
	m := map[string]uint64{}
	if len(use) == 0 {
		return m, nil
	}
	var sb strings.Builder
	sb.WriteString("(get-value (")
	for _, v := range use {
		sb.WriteString(quote(v.Name))
		sb.WriteByte(' ')
	}
	sb.WriteString("))")
	text, err := ss.S.sexpr(sb.String())
	if err != nil {
		return nil, err
	}
	toks := tokenize(text)
	if len(toks) > 1 && toks[1] == "error" {
		ss.S.Errors = append(ss.S.Errors, text)
		return nil, fmt.Errorf("solver error: %s", text)
	}
	i := 1
	for _, v := range use {
		if i >= len(toks) || toks[i] != "(" {
			return nil, fmt.Errorf("model parse error: %s", text)
		}
		i += 2 // ( name
		var val uint64
		switch tk := toks[i]; {
		case tk == "true":
			val = 1
			i++
		case tk == "false":
			val = 0
			i++
		case tk == "(": // (- N)
			if toks[i+1] != "-" {
				return nil, fmt.Errorf("model parse error: %s", text)
			}
			b, ok := new(big.Int).SetString(toks[i+2], 10)
			if !ok {
				return nil, fmt.Errorf("model parse error: %s", text)
			}
			val = -b.Uint64()
			i += 4
		default:
			b, ok := new(big.Int).SetString(tk, 10)
			if !ok {
				return nil, fmt.Errorf("model value parse error %q: %s", tk, text)
			}
			val = b.Uint64()
			i++
		}
		i++ // )
		if v.W > 0 && v.W < 64 {
			val &= mask(v.W)
		}
		m[v.Name] = val
	}
	return m, nil
}
