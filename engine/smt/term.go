// Package smt: bit-vector / Bool terms with light simplification, an evaluator and an SMT-LIB2 printer.
package smt

import (
	"fmt"
	"math/bits"
	"sort"
	"strings"
)

type Op uint8

const (
	OpConst Op = iota // BV constant (W>0) or Bool constant (W==0)
	OpVar
	OpNot // Bool
	OpAnd // Bool, n-ary
	OpOr  // Bool, n-ary
	OpIte // any sort: Args[0] Bool
	OpEq  // Bool over two same-sort args
	OpBvAdd
	OpBvSub
	OpBvMul
	OpBvUDiv
	OpBvSDiv
	OpBvURem
	OpBvSRem
	OpBvAnd
	OpBvOr
	OpBvXor
	OpBvNot
	OpBvNeg
	OpBvShl
	OpBvLshr
	OpBvAshr
	OpBvUlt
	OpBvUle
	OpBvSlt
	OpBvSle
	OpExtract // Hi, Lo
	OpZext    // to width W
	OpSext    // to width W
	OpConcat
)

var opNames = map[Op]string{
	OpNot: "not", OpAnd: "and", OpOr: "or", OpIte: "ite", OpEq: "=",
	OpBvAdd: "bvadd", OpBvSub: "bvsub", OpBvMul: "bvmul", OpBvUDiv: "bvudiv", OpBvSDiv: "bvsdiv",
	OpBvURem: "bvurem", OpBvSRem: "bvsrem", OpBvAnd: "bvand", OpBvOr: "bvor", OpBvXor: "bvxor",
	OpBvNot: "bvnot", OpBvNeg: "bvneg", OpBvShl: "bvshl", OpBvLshr: "bvlshr", OpBvAshr: "bvashr",
	OpBvUlt: "bvult", OpBvUle: "bvule", OpBvSlt: "bvslt", OpBvSle: "bvsle", OpConcat: "concat",
}

// Term is an immutable term. W==0 means Bool, otherwise a bit-vector of width W (<=64).
type Term struct {
	Op     Op
	W      int
	Args   []*Term
	Val    uint64 // OpConst
	Name   string // OpVar
	Hi, Lo int    // OpExtract
	Sgn    bool   // OpVar: holds a signed quantity (integer encoding declares the signed range)
	key    string
	size   int
}

// Pool interns terms (one pool per path run; not safe for concurrent use).
type Pool struct {
	views map[*Term][]piece
	tab  map[string]*Term
	Vars map[string]*Term
	// order of variable creation
	VarOrder []string
}

func NewPool() *Pool {
	return &Pool{tab: map[string]*Term{}, Vars: map[string]*Term{}, views: map[*Term][]piece{}}
}

func mask(w int) uint64 {
	if w >= 64 {
		return ^uint64(0)
	}
	return (uint64(1) << uint(w)) - 1
}

func (p *Pool) intern(t *Term) *Term {
	var sb strings.Builder
	fmt.Fprintf(&sb, "%d:%d:", t.Op, t.W)
	switch t.Op {
	case OpConst:
		fmt.Fprintf(&sb, "%d", t.Val)
	case OpVar:
		sb.WriteString(t.Name)
	case OpExtract:
		fmt.Fprintf(&sb, "%d,%d:", t.Hi, t.Lo)
	}
	sz := 1
	for _, a := range t.Args {
		fmt.Fprintf(&sb, "%p,", a)
		sz += a.size
	}
	k := sb.String()
	if e, ok := p.tab[k]; ok {
		return e
	}
	t.key = k
	t.size = sz
	p.tab[k] = t
	return t
}

func (t *Term) IsConst() bool { return t.Op == OpConst }
func (t *Term) IsBool() bool  { return t.W == 0 }
func (t *Term) IsTrue() bool  { return t.Op == OpConst && t.W == 0 && t.Val == 1 }
func (t *Term) IsFalse() bool { return t.Op == OpConst && t.W == 0 && t.Val == 0 }
func (t *Term) Size() int     { return t.size }

func (p *Pool) Bool(b bool) *Term {
	v := uint64(0)
	if b {
		v = 1
	}
	return p.intern(&Term{Op: OpConst, W: 0, Val: v})
}

func (p *Pool) BV(v uint64, w int) *Term {
	return p.intern(&Term{Op: OpConst, W: w, Val: v & mask(w)})
}

// Var returns the variable with this name, creating it if needed. Width 0 = Bool.
func (p *Pool) Var(name string, w int) *Term { return p.VarS(name, w, false) }

// VarS creates a variable; signed selects the range declared in the integer encoding.
func (p *Pool) VarS(name string, w int, signed bool) *Term {
	if v, ok := p.Vars[name]; ok {
		if v.W != w {
			panic(fmt.Sprintf("smt: variable %s redeclared with width %d (was %d)", name, w, v.W))
		}
		return v
	}
	v := p.intern(&Term{Op: OpVar, W: w, Name: name, Sgn: signed})
	p.Vars[name] = v
	p.VarOrder = append(p.VarOrder, name)
	return v
}

func (p *Pool) Not(a *Term) *Term {
	if a.IsConst() {
		return p.Bool(a.Val == 0)
	}
	if a.Op == OpNot {
		return a.Args[0]
	}
	return p.intern(&Term{Op: OpNot, Args: []*Term{a}})
}

func (p *Pool) And(as ...*Term) *Term {
	var out []*Term
	seen := map[*Term]bool{}
	for _, a := range as {
		if a.IsFalse() {
			return a
		}
		if a.IsTrue() || seen[a] {
			continue
		}
		if a.Op == OpAnd {
			for _, b := range a.Args {
				if !seen[b] {
					seen[b] = true
					out = append(out, b)
				}
			}
			continue
		}
		seen[a] = true
		out = append(out, a)
	}
	for _, a := range out {
		if a.Op == OpNot && seen[a.Args[0]] {
			return p.Bool(false)
		}
	}
	switch len(out) {
	case 0:
		return p.Bool(true)
	case 1:
		return out[0]
	}
	return p.intern(&Term{Op: OpAnd, Args: out})
}

func (p *Pool) Or(as ...*Term) *Term {
	var out []*Term
	seen := map[*Term]bool{}
	for _, a := range as {
		if a.IsTrue() {
			return a
		}
		if a.IsFalse() || seen[a] {
			continue
		}
		if a.Op == OpOr {
			for _, b := range a.Args {
				if !seen[b] {
					seen[b] = true
					out = append(out, b)
				}
			}
			continue
		}
		seen[a] = true
		out = append(out, a)
	}
	for _, a := range out {
		if a.Op == OpNot && seen[a.Args[0]] {
			return p.Bool(true)
		}
	}
	switch len(out) {
	case 0:
		return p.Bool(false)
	case 1:
		return out[0]
	}
	return p.intern(&Term{Op: OpOr, Args: out})
}

func (p *Pool) Implies(a, b *Term) *Term { return p.Or(p.Not(a), b) }

func (p *Pool) Ite(c, a, b *Term) *Term {
	if c.IsConst() {
		if c.Val != 0 {
			return a
		}
		return b
	}
	if a == b {
		return a
	}
	if a.W != b.W {
		panic("smt: ite sort mismatch")
	}
	if a.W == 0 {
		// Boolean ite -> and/or (helps simplification)
		if a.IsTrue() {
			return p.Or(c, b)
		}
		if a.IsFalse() {
			return p.And(p.Not(c), b)
		}
		if b.IsTrue() {
			return p.Or(p.Not(c), a)
		}
		if b.IsFalse() {
			return p.And(c, a)
		}
	}
	return p.intern(&Term{Op: OpIte, W: a.W, Args: []*Term{c, a, b}})
}

func (p *Pool) Eq(a, b *Term) *Term {
	if a.W != b.W {
		panic(fmt.Sprintf("smt: = sort mismatch %d vs %d", a.W, b.W))
	}
	if a == b {
		return p.Bool(true)
	}
	if a.IsConst() && b.IsConst() {
		return p.Bool(a.Val == b.Val)
	}
	if a.W == 0 {
		if a.IsConst() {
			a, b = b, a
		}
		if b.IsTrue() {
			return a
		}
		if b.IsFalse() {
			return p.Not(a)
		}
	}
	if a.IsConst() { // constants to the right
		a, b = b, a
	}
	return p.intern(&Term{Op: OpEq, Args: []*Term{a, b}})
}

func sext(v uint64, w int) int64 {
	if w >= 64 {
		return int64(v)
	}
	sh := uint(64 - w)
	return int64(v<<sh) >> sh
}

func evalBin(op Op, w int, x, y uint64) uint64 {
	m := mask(w)
	switch op {
	case OpBvAdd:
		return (x + y) & m
	case OpBvSub:
		return (x - y) & m
	case OpBvMul:
		return (x * y) & m
	case OpBvUDiv:
		if y == 0 {
			return m
		}
		return (x / y) & m
	case OpBvURem:
		if y == 0 {
			return x
		}
		return (x % y) & m
	case OpBvSDiv:
		sx, sy := sext(x, w), sext(y, w)
		if sy == 0 {
			if sx < 0 {
				return 1
			}
			return m
		}
		if sy == -1 {
			return uint64(-sx) & m
		}
		return uint64(sx/sy) & m
	case OpBvSRem:
		sx, sy := sext(x, w), sext(y, w)
		if sy == 0 {
			return x
		}
		if sy == -1 {
			return 0
		}
		return uint64(sx%sy) & m
	case OpBvAnd:
		return x & y
	case OpBvOr:
		return x | y
	case OpBvXor:
		return x ^ y
	case OpBvShl:
		if y >= uint64(w) {
			return 0
		}
		return (x << y) & m
	case OpBvLshr:
		if y >= uint64(w) {
			return 0
		}
		return (x >> y) & m
	case OpBvAshr:
		sx := sext(x, w)
		if y >= uint64(w) {
			if sx < 0 {
				return m
			}
			return 0
		}
		return uint64(sx>>y) & m
	case OpBvUlt:
		return b2u(x < y)
	case OpBvUle:
		return b2u(x <= y)
	case OpBvSlt:
		return b2u(sext(x, w) < sext(y, w))
	case OpBvSle:
		return b2u(sext(x, w) <= sext(y, w))
	}
	panic("evalBin")
}

func b2u(b bool) uint64 {
	if b {
		return 1
	}
	return 0
}

// Bin builds a binary bit-vector operation (arithmetic, bitwise, shift or comparison).
func (p *Pool) Bin(op Op, a, b *Term) *Term {
	if a.W != b.W || a.W == 0 {
		panic(fmt.Sprintf("smt: %s width mismatch %d vs %d", opNames[op], a.W, b.W))
	}
	rw := a.W
	switch op {
	case OpBvUle: // canonical form: a <= b  ==  not (b < a)
		return p.Not(p.Bin(OpBvUlt, b, a))
	case OpBvSle:
		return p.Not(p.Bin(OpBvSlt, b, a))
	case OpBvUlt, OpBvSlt:
		rw = 0
	}
	if a.IsConst() && b.IsConst() {
		v := evalBin(op, a.W, a.Val, b.Val)
		if rw == 0 {
			return p.Bool(v != 0)
		}
		return p.BV(v, rw)
	}
	// a few cheap identities
	switch op {
	case OpBvAdd:
		if a.IsConst() && a.Val == 0 {
			return b
		}
		if b.IsConst() && b.Val == 0 {
			return a
		}
		// (x + c1) + c2 -> x + (c1+c2)
		if b.IsConst() && a.Op == OpBvAdd && a.Args[1].IsConst() {
			return p.Bin(OpBvAdd, a.Args[0], p.BV(a.Args[1].Val+b.Val, a.W))
		}
		if b.IsConst() && a.Op == OpBvSub && a.Args[1].IsConst() {
			return p.Bin(OpBvAdd, a.Args[0], p.BV(b.Val-a.Args[1].Val, a.W))
		}
	case OpBvSub:
		if b.IsConst() && b.Val == 0 {
			return a
		}
		if a == b {
			return p.BV(0, a.W)
		}
		if b.IsConst() {
			return p.Bin(OpBvAdd, a, p.BV(-b.Val, a.W))
		}
	case OpBvAnd:
		if a == b {
			return a
		}
		if a.IsConst() {
			a, b = b, a
		}
		if b.IsConst() && b.Val == 0 {
			return b
		}
		if b.IsConst() && b.Val == mask(a.W) {
			return a
		}
		if b.IsConst() {
			return p.normAndConst(a, b)
		}
	case OpBvOr:
		if a == b {
			return a
		}
		if a.IsConst() {
			a, b = b, a
		}
		if b.IsConst() && b.Val == 0 {
			return a
		}
		if b.IsConst() && b.Val == mask(a.W) {
			return b
		}
		if r := p.normOr(a, b); r != nil {
			return r
		}
	case OpBvShl, OpBvLshr:
		if b.IsConst() {
			if b.Val == 0 {
				return a
			}
			c := a.W
			if b.Val < uint64(a.W) {
				c = int(b.Val)
			}
			return p.normShift(a, c, op == OpBvShl)
		}
	case OpBvUle, OpBvSle:
		if a == b {
			return p.Bool(true)
		}
	case OpBvUlt, OpBvSlt:
		if a == b {
			return p.Bool(false)
		}
	}
	return p.intern(&Term{Op: op, W: rw, Args: []*Term{a, b}})
}

func (p *Pool) BvNot(a *Term) *Term {
	if a.IsConst() {
		return p.BV(^a.Val, a.W)
	}
	return p.intern(&Term{Op: OpBvNot, W: a.W, Args: []*Term{a}})
}

func (p *Pool) BvNeg(a *Term) *Term {
	if a.IsConst() {
		return p.BV(-a.Val, a.W)
	}
	return p.intern(&Term{Op: OpBvNeg, W: a.W, Args: []*Term{a}})
}

func (p *Pool) Extract(a *Term, hi, lo int) *Term {
	if hi == a.W-1 && lo == 0 {
		return a
	}
	if a.IsConst() {
		return p.BV(a.Val>>uint(lo), hi-lo+1)
	}
	if (a.Op == OpZext || a.Op == OpSext) && hi < a.Args[0].W {
		return p.Extract(a.Args[0], hi, lo)
	}
	if va := p.view(a); interesting(va, a) {
		return p.build(restrict(va, lo, hi), hi-lo+1)
	}
	return p.intern(&Term{Op: OpExtract, W: hi - lo + 1, Args: []*Term{a}, Hi: hi, Lo: lo})
}

func (p *Pool) Zext(a *Term, w int) *Term {
	if w == a.W {
		return a
	}
	if w < a.W {
		return p.Extract(a, w-1, 0)
	}
	if a.IsConst() {
		return p.BV(a.Val, w)
	}
	if va := p.view(a); interesting(va, a) {
		return p.build(append([]piece{}, va...), w)
	}
	return p.intern(&Term{Op: OpZext, W: w, Args: []*Term{a}})
}

func (p *Pool) Sext(a *Term, w int) *Term {
	if w == a.W {
		return a
	}
	if w < a.W {
		return p.Extract(a, w-1, 0)
	}
	if a.IsConst() {
		return p.BV(uint64(sext(a.Val, a.W)), w)
	}
	return p.intern(&Term{Op: OpSext, W: w, Args: []*Term{a}})
}

func (p *Pool) Concat(hi, lo *Term) *Term {
	w := hi.W + lo.W
	if w > 64 {
		panic("smt: concat wider than 64")
	}
	if hi.IsConst() && lo.IsConst() {
		return p.BV(hi.Val<<uint(lo.W)|lo.Val, w)
	}
	v := append(append([]piece{}, p.view(lo)...), shiftUp(p.view(hi), lo.W, w)...)
	return p.build(v, w)
}

// Eval evaluates t under the model (missing variables are 0).
func Eval(t *Term, model map[string]uint64) uint64 {
	memo := map[*Term]uint64{}
	return eval(t, model, memo)
}

func eval(t *Term, model map[string]uint64, memo map[*Term]uint64) uint64 {
	switch t.Op {
	case OpConst:
		return t.Val
	case OpVar:
		return model[t.Name] & maskB(t.W)
	}
	if v, ok := memo[t]; ok {
		return v
	}
	var r uint64
	switch t.Op {
	case OpNot:
		r = 1 - eval(t.Args[0], model, memo)
	case OpAnd:
		r = 1
		for _, a := range t.Args {
			if eval(a, model, memo) == 0 {
				r = 0
				break
			}
		}
	case OpOr:
		r = 0
		for _, a := range t.Args {
			if eval(a, model, memo) != 0 {
				r = 1
				break
			}
		}
	case OpIte:
		if eval(t.Args[0], model, memo) != 0 {
			r = eval(t.Args[1], model, memo)
		} else {
			r = eval(t.Args[2], model, memo)
		}
	case OpEq:
		r = b2u(eval(t.Args[0], model, memo) == eval(t.Args[1], model, memo))
	case OpBvNot:
		r = ^eval(t.Args[0], model, memo) & mask(t.W)
	case OpBvNeg:
		r = (-eval(t.Args[0], model, memo)) & mask(t.W)
	case OpExtract:
		r = (eval(t.Args[0], model, memo) >> uint(t.Lo)) & mask(t.W)
	case OpZext:
		r = eval(t.Args[0], model, memo)
	case OpSext:
		r = uint64(sext(eval(t.Args[0], model, memo), t.Args[0].W)) & mask(t.W)
	case OpConcat:
		r = eval(t.Args[0], model, memo)<<uint(t.Args[1].W) | eval(t.Args[1], model, memo)
	default:
		r = evalBin(t.Op, t.Args[0].W, eval(t.Args[0], model, memo), eval(t.Args[1], model, memo))
	}
	memo[t] = r
	return r
}

func maskB(w int) uint64 {
	if w == 0 {
		return 1
	}
	return mask(w)
}

func sortStr(w int) string {
	if w == 0 {
		return "Bool"
	}
	return fmt.Sprintf("(_ BitVec %d)", w)
}

// Decl returns the SMT-LIB declaration of a variable term.
func Decl(v *Term) string {
	return fmt.Sprintf("(declare-fun %s () %s)", quote(v.Name), sortStr(v.W))
}

func quote(s string) string {
	simple := true
	for _, c := range s {
		if !(c >= 'a' && c <= 'z' || c >= 'A' && c <= 'Z' || c >= '0' && c <= '9' || c == '_' || c == '.') {
			simple = false
			break
		}
	}
	if simple && len(s) > 0 && !(s[0] >= '0' && s[0] <= '9') {
		return s
	}
	return "|" + strings.ReplaceAll(strings.ReplaceAll(s, "|", "!"), "\\", "!") + "|"
}

// String prints t as SMT-LIB2 with let-bindings for shared sub-terms.
func (t *Term) String() string {
	refs := map[*Term]int{}
	var count func(x *Term)
	count = func(x *Term) {
		refs[x]++
		if refs[x] > 1 {
			return
		}
		for _, a := range x.Args {
			count(a)
		}
	}
	count(t)
	// shared compound nodes in topological (post) order
	var shared []*Term
	names := map[*Term]string{}
	visited := map[*Term]bool{}
	var order func(x *Term)
	order = func(x *Term) {
		if visited[x] {
			return
		}
		visited[x] = true
		for _, a := range x.Args {
			order(a)
		}
		if refs[x] > 1 && len(x.Args) > 0 && x != t {
			shared = append(shared, x)
		}
	}
	order(t)
	var sb strings.Builder
	for i, s := range shared {
		sb.WriteString("(let ((")
		nm := fmt.Sprintf("?l%d", i)
		sb.WriteString(nm)
		sb.WriteByte(' ')
		printTerm(&sb, s, names, true)
		sb.WriteString(")) ")
		names[s] = nm
	}
	printTerm(&sb, t, names, true)
	for range shared {
		sb.WriteByte(')')
	}
	return sb.String()
}

func printTerm(sb *strings.Builder, t *Term, names map[*Term]string, top bool) {
	if !top {
		if n, ok := names[t]; ok {
			sb.WriteString(n)
			return
		}
	}
	switch t.Op {
	case OpConst:
		if t.W == 0 {
			if t.Val != 0 {
				sb.WriteString("true")
			} else {
				sb.WriteString("false")
			}
		} else {
			fmt.Fprintf(sb, "(_ bv%d %d)", t.Val, t.W)
		}
	case OpVar:
		sb.WriteString(quote(t.Name))
	case OpExtract:
		fmt.Fprintf(sb, "((_ extract %d %d) ", t.Hi, t.Lo)
		printTerm(sb, t.Args[0], names, false)
		sb.WriteByte(')')
	case OpZext:
		fmt.Fprintf(sb, "((_ zero_extend %d) ", t.W-t.Args[0].W)
		printTerm(sb, t.Args[0], names, false)
		sb.WriteByte(')')
	case OpSext:
		fmt.Fprintf(sb, "((_ sign_extend %d) ", t.W-t.Args[0].W)
		printTerm(sb, t.Args[0], names, false)
		sb.WriteByte(')')
	default:
		sb.WriteByte('(')
		sb.WriteString(opNames[t.Op])
		for _, a := range t.Args {
			sb.WriteByte(' ')
			printTerm(sb, a, names, false)
		}
		sb.WriteByte(')')
	}
}

// VarsOf returns the sorted names of variables occurring in the terms.
func VarsOf(ts ...*Term) []string {
	seen := map[*Term]bool{}
	set := map[string]bool{}
	var walk func(x *Term)
	walk = func(x *Term) {
		if seen[x] {
			return
		}
		seen[x] = true
		if x.Op == OpVar {
			set[x.Name] = true
		}
		for _, a := range x.Args {
			walk(a)
		}
	}
	for _, t := range ts {
		walk(t)
	}
	var out []string
	for n := range set {
		out = append(out, n)
	}
	sort.Strings(out)
	return out
}

var _ = bits.Len
