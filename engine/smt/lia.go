package smt

import (
	"fmt"
	"math/big"
)

// Integer ("LIA") view of bit-vector terms.
//
// For a bit-vector term t of width w, I(t) is an integer expression with
// I(t) ≡ value(t) (mod 2^w), together with conservative bounds lo <= I(t) <= hi derived from the
// variable ranges. Where a comparison needs the signed (unsigned) value, the bounds must show
// that I(t) already lies in the signed (unsigned) range of width w, in which case I(t) *is* that
// value; otherwise the term is not LIA-safe and the query falls back to the bit-vector encoding.
// The translation is exact (no abstraction): a LIA query is equisatisfiable with the BV query.

type liaInfo struct {
	lo, hi *big.Int
	ok     bool
}

// LIA analyses terms for integer translatability; one instance per pool (memoised).
type LIA struct {
	memo map[*Term]*liaInfo
	bok  map[*Term]int // 0 unknown, 1 ok, 2 not ok
	safe map[*Term]*liaInfo // ranges established by a solver query under the path condition
}

func NewLIA() *LIA {
	return &LIA{memo: map[*Term]*liaInfo{}, bok: map[*Term]int{}, safe: map[*Term]*liaInfo{}}
}

// RangeNeed: the integer view of T must be shown to lie in [Lo,Hi] for the query to be expressible
type RangeNeed struct {
	T      *Term
	Lo, Hi *big.Int
}

// Needs lists the value-use points of a Bool term whose static bounds do not establish the range the
// integer view requires (while the term itself is expressible up to congruence).
func (l *LIA) Needs(t *Term) []RangeNeed {
	var out []RangeNeed
	seen := map[*Term]bool{}
	var needS, needU func(x *Term)
	var walkB func(x *Term)
	var walkV func(x *Term)
	needS = func(x *Term) {
		walkV(x)
		if a := l.bv(x); a.ok && !l.signedOK(x) {
			lo, hi := signedRange(x.W)
			out = append(out, RangeNeed{x, lo, hi})
		}
	}
	needU = func(x *Term) {
		walkV(x)
		if x.IsConst() {
			return
		}
		if a := l.bv(x); a.ok && !l.unsignedOK(x) {
			lo, hi := unsignedRange(x.W)
			out = append(out, RangeNeed{x, lo, hi})
		}
	}
	walkV = func(x *Term) {
		if seen[x] {
			return
		}
		seen[x] = true
		switch x.Op {
		case OpZext:
			needU(x.Args[0])
		case OpSext:
			needS(x.Args[0])
		case OpConcat:
			needU(x.Args[0])
			needU(x.Args[1])
		case OpIte:
			walkB(x.Args[0])
			walkV(x.Args[1])
			walkV(x.Args[2])
		default:
			for _, a := range x.Args {
				if a.W > 0 {
					walkV(a)
				}
			}
		}
	}
	walkB = func(x *Term) {
		if seen[x] {
			return
		}
		seen[x] = true
		switch x.Op {
		case OpNot, OpAnd, OpOr, OpIte:
			for _, a := range x.Args {
				if a.W == 0 {
					walkB(a)
				} else {
					walkV(a)
				}
			}
		case OpEq:
			if x.Args[0].W == 0 {
				walkB(x.Args[0])
				walkB(x.Args[1])
			} else if !((l.signedOK(x.Args[0]) && l.signedOK(x.Args[1])) || (l.unsignedOK(x.Args[0]) && l.unsignedOK(x.Args[1]))) {
				// choose the reading one side already supports (unsigned first: concatenations, zero-extensions)
				if l.unsignedOK(x.Args[0]) || l.unsignedOK(x.Args[1]) || !(l.signedOK(x.Args[0]) || l.signedOK(x.Args[1])) {
					needU(x.Args[0])
					needU(x.Args[1])
				} else {
					needS(x.Args[0])
					needS(x.Args[1])
				}
			} else {
				walkV(x.Args[0])
				walkV(x.Args[1])
			}
		case OpBvSlt:
			needS(x.Args[0])
			needS(x.Args[1])
		case OpBvUlt:
			needU(x.Args[0])
			needU(x.Args[1])
		}
	}
	walkB(t)
	return out
}

// MarkRange records that the integer view of t lies in [lo,hi] under the current path condition.
func (l *LIA) MarkRange(t *Term, lo, hi *big.Int) {
	a := l.bv(t)
	nlo, nhi := lo, hi
	if a.ok {
		if a.lo.Cmp(nlo) > 0 {
			nlo = a.lo
		}
		if a.hi.Cmp(nhi) < 0 {
			nhi = a.hi
		}
	}
	l.safe[t] = &liaInfo{lo: nlo, hi: nhi, ok: true}
	l.memo = map[*Term]*liaInfo{}
	l.bok = map[*Term]int{}
}

var bigOne = big.NewInt(1)

func pow2(w int) *big.Int { return new(big.Int).Lsh(bigOne, uint(w)) }

func signedRange(w int) (*big.Int, *big.Int) {
	h := pow2(w - 1)
	return new(big.Int).Neg(h), new(big.Int).Sub(h, bigOne)
}

func unsignedRange(w int) (*big.Int, *big.Int) {
	return big.NewInt(0), new(big.Int).Sub(pow2(w), bigOne)
}

func within(lo, hi, rlo, rhi *big.Int) bool { return lo.Cmp(rlo) >= 0 && hi.Cmp(rhi) <= 0 }

func intLit(v *big.Int) string {
	if v.Sign() < 0 {
		return "(- " + new(big.Int).Neg(v).String() + ")"
	}
	return v.String()
}

// constIntSigned: the two's complement value of a constant
func constIntSigned(t *Term) *big.Int {
	v := new(big.Int).SetUint64(t.Val)
	if t.W >= 1 && t.W <= 64 && t.Val>>(uint(t.W)-1) == 1 {
		v.Sub(v, pow2(t.W))
	}
	return v
}

func constInt(t *Term) *big.Int {
	v := new(big.Int).SetUint64(t.Val)
	// prefer the signed reading for values with the top bit set (e.g. -1)
	if t.W >= 2 && t.Val>>(uint(t.W)-1) == 1 {
		v.Sub(v, pow2(t.W))
	}
	return v
}

func (l *LIA) bv(t *Term) *liaInfo {
	if r, ok := l.safe[t]; ok {
		return r
	}
	if r, ok := l.memo[t]; ok {
		return r
	}
	r := l.bv1(t)
	l.memo[t] = r
	return r
}

func (l *LIA) bv1(t *Term) *liaInfo {
	bad := &liaInfo{}
	w := t.W
	switch t.Op {
	case OpConst:
		v := constInt(t)
		return &liaInfo{lo: v, hi: v, ok: true}
	case OpVar:
		var lo, hi *big.Int
		if t.Sgn {
			lo, hi = signedRange(w)
		} else {
			lo, hi = unsignedRange(w)
		}
		return &liaInfo{lo: lo, hi: hi, ok: true}
	case OpBvAdd, OpBvSub:
		a, b := l.bv(t.Args[0]), l.bv(t.Args[1])
		if !a.ok || !b.ok {
			return bad
		}
		if t.Op == OpBvAdd {
			return &liaInfo{lo: new(big.Int).Add(a.lo, b.lo), hi: new(big.Int).Add(a.hi, b.hi), ok: true}
		}
		return &liaInfo{lo: new(big.Int).Sub(a.lo, b.hi), hi: new(big.Int).Sub(a.hi, b.lo), ok: true}
	case OpBvNeg:
		a := l.bv(t.Args[0])
		if !a.ok {
			return bad
		}
		return &liaInfo{lo: new(big.Int).Neg(a.hi), hi: new(big.Int).Neg(a.lo), ok: true}
	case OpBvMul:
		a, b := l.bv(t.Args[0]), l.bv(t.Args[1])
		if !a.ok || !b.ok {
			return bad
		}
		if !t.Args[0].IsConst() && !t.Args[1].IsConst() {
			return bad // non-linear
		}
		c := b.lo
		if t.Args[0].IsConst() {
			c = a.lo
			a = b
		}
		x, y := new(big.Int).Mul(a.lo, c), new(big.Int).Mul(a.hi, c)
		if x.Cmp(y) > 0 {
			x, y = y, x
		}
		return &liaInfo{lo: x, hi: y, ok: true}
	case OpIte:
		cok := l.boolOK(t.Args[0])
		a, b := l.bv(t.Args[1]), l.bv(t.Args[2])
		if !cok || !a.ok || !b.ok {
			return bad
		}
		lo, hi := a.lo, a.hi
		if b.lo.Cmp(lo) < 0 {
			lo = b.lo
		}
		if b.hi.Cmp(hi) > 0 {
			hi = b.hi
		}
		return &liaInfo{lo: lo, hi: hi, ok: true}
	case OpZext:
		a := l.bv(t.Args[0])
		ulo, uhi := unsignedRange(t.Args[0].W)
		if !a.ok || !within(a.lo, a.hi, ulo, uhi) {
			return bad
		}
		return a
	case OpSext:
		a := l.bv(t.Args[0])
		slo, shi := signedRange(t.Args[0].W)
		if !a.ok || !within(a.lo, a.hi, slo, shi) {
			return bad
		}
		return a
	case OpExtract:
		if t.Lo != 0 {
			return bad
		}
		return l.bv(t.Args[0]) // congruent modulo the smaller power of two as well
	case OpConcat:
		hi, lo := t.Args[0], t.Args[1]
		a, b := l.uinfo(hi), l.uinfo(lo)
		if !a.ok || !b.ok {
			return bad
		}
		sc := pow2(lo.W)
		return &liaInfo{lo: new(big.Int).Add(new(big.Int).Mul(a.lo, sc), b.lo), hi: new(big.Int).Add(new(big.Int).Mul(a.hi, sc), b.hi), ok: true}
	}
	return bad
}

// uinfo: bounds of the unsigned value of t when the integer view of t is that value
func (l *LIA) uinfo(t *Term) *liaInfo {
	if t.IsConst() {
		v := new(big.Int).SetUint64(t.Val)
		return &liaInfo{lo: v, hi: v, ok: true}
	}
	if !l.unsignedOK(t) {
		return &liaInfo{}
	}
	return l.bv(t)
}

func (l *LIA) signedOK(t *Term) bool {
	if t.IsConst() {
		return true // rendered by its signed value where the signed reading is used
	}
	a := l.bv(t)
	lo, hi := signedRange(t.W)
	return a.ok && within(a.lo, a.hi, lo, hi)
}

func (l *LIA) unsignedOK(t *Term) bool {
	if t.IsConst() {
		return true // rendered by its unsigned value where the unsigned reading is used
	}
	a := l.bv(t)
	lo, hi := unsignedRange(t.W)
	return a.ok && within(a.lo, a.hi, lo, hi)
}

// EqSigned: the reading used for an equality of bit-vector terms (signed if both sides support it)
func (l *LIA) EqSigned(x, y *Term) bool {
	return l.signedOK(x) && l.signedOK(y)
}

// boolOK reports whether a Bool term is LIA-safe.
func (l *LIA) boolOK(t *Term) bool {
	if s := l.bok[t]; s != 0 {
		return s == 1
	}
	ok := l.bool1(t)
	if ok {
		l.bok[t] = 1
	} else {
		l.bok[t] = 2
	}
	return ok
}

func (l *LIA) bool1(t *Term) bool {
	switch t.Op {
	case OpConst, OpVar:
		return true
	case OpNot, OpAnd, OpOr:
		for _, x := range t.Args {
			if !l.boolOK(x) {
				return false
			}
		}
		return true
	case OpIte:
		return l.boolOK(t.Args[0]) && l.boolOK(t.Args[1]) && l.boolOK(t.Args[2])
	case OpEq:
		x, y := t.Args[0], t.Args[1]
		if x.W == 0 {
			return l.boolOK(x) && l.boolOK(y)
		}
		return (l.signedOK(x) && l.signedOK(y)) || (l.unsignedOK(x) && l.unsignedOK(y))
	case OpBvSlt:
		return l.signedOK(t.Args[0]) && l.signedOK(t.Args[1])
	case OpBvUlt:
		return l.unsignedOK(t.Args[0]) && l.unsignedOK(t.Args[1])
	}
	return false
}

// DeclLIA declares a variable in the integer encoding (with its range).
func DeclLIA(v *Term) string {
	if v.W == 0 {
		return fmt.Sprintf("(declare-fun %s () Bool)", quote(v.Name))
	}
	var lo, hi *big.Int
	if v.Sgn {
		lo, hi = signedRange(v.W)
	} else {
		lo, hi = unsignedRange(v.W)
	}
	n := quote(v.Name)
	return fmt.Sprintf("(declare-fun %s () Int)\n(assert (and (<= %s %s) (<= %s %s)))", n, intLit(lo), n, n, intLit(hi))
}

// NonNegative reports whether the signed value of t is provably >= 0 (from variable ranges).
func (l *LIA) NonNegative(t *Term) bool {
	a := l.bv(t)
	lo, hi := signedRange(t.W)
	return a.ok && within(a.lo, a.hi, lo, hi) && a.lo.Sign() >= 0
}

// Why names a sub-term that keeps t out of the integer view (diagnostics).
func (l *LIA) Why(t *Term) string {
	var bad *Term
	seen := map[*Term]bool{}
	var walk func(x *Term)
	walk = func(x *Term) {
		if bad != nil || seen[x] {
			return
		}
		seen[x] = true
		for _, a := range x.Args {
			walk(a)
		}
		if bad != nil {
			return
		}
		if x.W == 0 {
			if !l.boolOK(x) {
				bad = x
			}
		} else if !l.bv(x).ok {
			bad = x
		}
	}
	walk(t)
	if bad == nil {
		return "?"
	}
	s := bad.String()
	if len(s) > 300 {
		s = s[:300]
	}
	return opNames[bad.Op] + ": " + s
}
