package smt

import (
	"bufio"
	"fmt"
	"io"
	"os"
	"os/exec"
	"strconv"
	"strings"
	"time"
)

type Result int

const (
	Unsat Result = iota
	Sat
	Unknown
)

func (r Result) String() string {
	switch r {
	case Unsat:
		return "unsat"
	case Sat:
		return "sat"
	}
	return "unknown"
}

// Solver drives one SMT solver process over a pipe.
type Solver struct {
	Kind    string // cvc5 | z3 | z3-new
	Role    string
	cmd     *exec.Cmd
	in      io.WriteCloser
	out     *bufio.Reader
	Queries [3]int // by Result
	Time    time.Duration
	Errors  []string
	Trace   io.Writer
	dead    bool
	outF    *os.File
	limit   time.Duration // watchdog: no answer within this time kills the process
}

// Dead reports whether the process was lost (crash, watchdog).
func (s *Solver) Dead() bool { return s.dead }

func StartSolver(kind string, timeoutMs int) (*Solver, error) {
	var cmd *exec.Cmd
	switch kind {
	case "cvc5":
		cmd = exec.Command("cvc5", "--lang=smt2", "--incremental", "--produce-models", fmt.Sprintf("--tlimit-per=%d", timeoutMs))
	case "z3":
		cmd = exec.Command("/usr/bin/z3", "-in", "-smt2", fmt.Sprintf("-t:%d", timeoutMs))
	case "z3-new":
		cmd = exec.Command("z3-new", "-in", "-smt2", fmt.Sprintf("-t:%d", timeoutMs))
	default:
		return nil, fmt.Errorf("unknown solver %s", kind)
	}
	in, err := cmd.StdinPipe()
	if err != nil {
		return nil, err
	}
	out, err := cmd.StdoutPipe()
	if err != nil {
		return nil, err
	}
	cmd.Stderr = cmd.Stdout
	if err := cmd.Start(); err != nil {
		return nil, err
	}
	s := &Solver{Kind: kind, cmd: cmd, in: in, out: bufio.NewReaderSize(out, 1<<16), limit: time.Duration(timeoutMs)*time.Millisecond + 30*time.Second}
	if f, ok := out.(*os.File); ok {
		s.outF = f
	}
	if p := os.Getenv("SYMGO_TRACE"); p != "" {
		f, _ := os.Create(p + "." + kind + "." + strconv.Itoa(cmd.Process.Pid))
		s.Trace = f
	}
	return s, nil
}

func (s *Solver) send(line string) {
	if s.dead {
		return
	}
	if s.Trace != nil {
		fmt.Fprintln(s.Trace, line)
	}
	if _, err := io.WriteString(s.in, line+"\n"); err != nil {
		s.dead = true
		s.Errors = append(s.Errors, "write: "+err.Error())
	}
}

func (s *Solver) Close() {
	if s.cmd != nil {
		s.send("(exit)")
		s.in.Close()
		done := make(chan struct{})
		go func() { s.cmd.Wait(); close(done) }()
		select {
		case <-done:
		case <-time.After(2 * time.Second):
			s.cmd.Process.Kill()
		}
	}
}

func (s *Solver) Push()           { s.send("(push 1)") }
func (s *Solver) Pop()            { s.send("(pop 1)") }
func (s *Solver) Declare(v *Term) { s.send(Decl(v)) }
func (s *Solver) Assert(t *Term)  { s.send("(assert " + t.String() + ")") }
func (s *Solver) Reset() {
	s.send("(reset)")
	if s.Kind == "cvc5" {
		s.send("(set-logic QF_BV)")
	}
	s.send("(set-option :produce-models true)")
}

func (s *Solver) readLine() (string, error) {
	for {
		if s.outF != nil {
			s.outF.SetReadDeadline(time.Now().Add(s.limit))
		}
		l, err := s.out.ReadString('\n')
		if err != nil {
			s.dead = true
			if s.cmd != nil && s.cmd.Process != nil {
				s.cmd.Process.Kill()
			}
			return "", err
		}
		l = strings.TrimSpace(l)
		if l == "" {
			continue
		}
		return l, nil
	}
}

// Check runs (check-sat). Any error line makes the answer Unknown.
func (s *Solver) Check() Result { return s.CheckCmd("(check-sat)") }

// CheckCmd sends a check command and reads the verdict.
func (s *Solver) CheckCmd(cmd string) Result {
	t0 := time.Now()
	defer func() { s.Time += time.Since(t0) }()
	if s.dead {
		s.Queries[Unknown]++
		return Unknown
	}
	s.send(cmd)
	for {
		l, err := s.readLine()
		if err != nil {
			s.Errors = append(s.Errors, "read ("+s.Role+"): "+err.Error())
			s.Queries[Unknown]++
			return Unknown
		}
		switch {
		case l == "sat":
			s.Queries[Sat]++
			return Sat
		case l == "unsat":
			s.Queries[Unsat]++
			return Unsat
		case l == "unknown" || l == "timeout":
			s.Queries[Unknown]++
			return Unknown
		case strings.HasPrefix(l, "(error"):
			s.Errors = append(s.Errors, l)
			// keep reading until the verdict arrives, but the verdict is not trusted
			for {
				l2, err := s.readLine()
				if err != nil || l2 == "sat" || l2 == "unsat" || l2 == "unknown" {
					break
				}
			}
			s.Queries[Unknown]++
			return Unknown
		default:
			s.Errors = append(s.Errors, "unexpected: "+l)
		}
	}
}

// sexpr sends a command and reads one balanced s-expression answer.
func (s *Solver) sexpr(cmd string) (string, error) {
	t0 := time.Now()
	defer func() { s.Time += time.Since(t0) }()
	if s.dead {
		return "", fmt.Errorf("solver dead")
	}
	s.send(cmd)
	var text strings.Builder
	depth := 0
	started := false
	inBar := false
	if s.outF != nil {
		s.outF.SetReadDeadline(time.Now().Add(s.limit))
	}
	for !started || depth > 0 {
		c, err := s.out.ReadByte()
		if err != nil {
			s.dead = true
			if s.cmd != nil && s.cmd.Process != nil {
				s.cmd.Process.Kill()
			}
			return "", err
		}
		text.WriteByte(c)
		if c == '|' {
			inBar = !inBar
		}
		if inBar {
			continue
		}
		if c == '(' {
			depth++
			started = true
		} else if c == ')' {
			depth--
		}
	}
	return text.String(), nil
}

// Model fetches the values of the given variables after a Sat answer (bit-vector encoding).
func (s *Solver) Model(vars []*Term) (map[string]uint64, error) {
	m := map[string]uint64{}
	if len(vars) == 0 {
		return m, nil
	}
	var sb strings.Builder
	sb.WriteString("(get-value (")
	for _, v := range vars {
		sb.WriteString(quote(v.Name))
		sb.WriteByte(' ')
	}
	sb.WriteString("))")
	textS, err := s.sexpr(sb.String())
	if err != nil {
		return nil, err
	}
	toks := tokenize(textS)
	if len(toks) > 1 && toks[1] == "error" {
		s.Errors = append(s.Errors, textS)
		return nil, fmt.Errorf("solver error: %s", textS)
	}
	// tokens: ( ( name value ) ( name value ) ... ) where value may be "(_ bvN W)"
	i := 1
	for _, v := range vars {
		if i >= len(toks) || toks[i] != "(" {
			return nil, fmt.Errorf("model parse error at %d: %v", i, textS)
		}
		i++ // (
		i++ // name
		var val uint64
		tk := toks[i]
		switch {
		case tk == "true":
			val = 1
			i++
		case tk == "false":
			val = 0
			i++
		case strings.HasPrefix(tk, "#b"):
			val, _ = strconv.ParseUint(tk[2:], 2, 64)
			i++
		case strings.HasPrefix(tk, "#x"):
			val, _ = strconv.ParseUint(tk[2:], 16, 64)
			i++
		case tk == "(": // (_ bvN W)
			val, _ = strconv.ParseUint(strings.TrimPrefix(toks[i+2], "bv"), 10, 64)
			i += 5
		default:
			return nil, fmt.Errorf("model value parse error: %q in %s", tk, textS)
		}
		i++ // )
		m[v.Name] = val
	}
	return m, nil
}

func tokenize(s string) []string {
	var toks []string
	i := 0
	for i < len(s) {
		c := s[i]
		switch {
		case c == '(' || c == ')':
			toks = append(toks, string(c))
			i++
		case c == ' ' || c == '\n' || c == '\t' || c == '\r':
			i++
		case c == '|':
			j := i + 1
			for j < len(s) && s[j] != '|' {
				j++
			}
			toks = append(toks, s[i:j+1])
			i = j + 1
		default:
			j := i
			for j < len(s) && !strings.ContainsRune("() \n\t\r", rune(s[j])) {
				j++
			}
			toks = append(toks, s[i:j])
			i = j
		}
	}
	return toks
}
