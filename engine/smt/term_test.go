package smt

import (
	"math/rand"
	"testing"
)

// Differential test of the simplifying constructors: every constructor result must evaluate to the
// same value as the operation applied to the operands' values.
func TestConstructorsPreserveSemantics(t *testing.T) {
	rng := rand.New(rand.NewSource(1))
	for iter := 0; iter < 3000; iter++ {
		p := NewPool()
		model := map[string]uint64{}
		type tv struct {
			t *Term
			v uint64
		}
		var pool32, pool8, pool64 []tv
		for i := 0; i < 3; i++ {
			n := string(rune('a' + i))
			w := []int{32, 17, 8}[i]
			model[n] = rng.Uint64() & mask(w)
			x := p.Var(n, w)
			z := p.Zext(x, 32)
			pool32 = append(pool32, tv{z, model[n]})
		}
		pool32 = append(pool32, tv{p.BV(0xffffff00, 32), 0xffffff00}, tv{p.BV(0xff, 32), 0xff}, tv{p.BV(uint64(rng.Uint32()), 32), 0})
		pool32[len(pool32)-1].v = pool32[len(pool32)-1].t.Val
		pick := func(xs []tv) tv { return xs[rng.Intn(len(xs))] }
		for step := 0; step < 12; step++ {
			a, b := pick(pool32), pick(pool32)
			var r tv
			switch rng.Intn(9) {
			case 0:
				r = tv{p.Bin(OpBvOr, a.t, b.t), a.v | b.v}
			case 1:
				r = tv{p.Bin(OpBvAnd, a.t, b.t), a.v & b.v}
			case 2:
				c := uint64(rng.Intn(40))
				r = tv{p.Bin(OpBvShl, a.t, p.BV(c, 32)), evalBin(OpBvShl, 32, a.v, c)}
			case 3:
				c := uint64(rng.Intn(40))
				r = tv{p.Bin(OpBvLshr, a.t, p.BV(c, 32)), evalBin(OpBvLshr, 32, a.v, c)}
			case 4:
				lo := rng.Intn(25)
				e := p.Extract(a.t, lo+7, lo)
				pool8 = append(pool8, tv{e, (a.v >> uint(lo)) & 0xff})
				r = tv{p.Zext(e, 32), (a.v >> uint(lo)) & 0xff}
			case 5:
				r = tv{p.Bin(OpBvAdd, a.t, b.t), (a.v + b.v) & mask(32)}
			case 6:
				if len(pool8) >= 4 {
					x0, x1, x2, x3 := pick(pool8), pick(pool8), pick(pool8), pick(pool8)
					c := p.Concat(p.Concat(p.Concat(x0.t, x1.t), x2.t), x3.t)
					r = tv{c, x0.v<<24 | x1.v<<16 | x2.v<<8 | x3.v}
				} else {
					r = a
				}
			case 7:
				r = tv{p.Bin(OpBvXor, a.t, b.t), a.v ^ b.v}
			case 8:
				z := p.Zext(a.t, 64)
				pool64 = append(pool64, tv{z, a.v})
				r = tv{p.Extract(z, 31, 0), a.v}
			}
			if r.t.W != 32 {
				t.Fatalf("width %d", r.t.W)
			}
			if got := Eval(r.t, model); got != r.v {
				t.Fatalf("iter %d step %d: term %s evaluates to %#x, expected %#x (model %v)", iter, step, r.t.String(), got, r.v, model)
			}
			pool32 = append(pool32, r)
		}
	}
}

// The integer view must agree with the bit-vector semantics whenever it claims a term is expressible.
func TestLIAViewAgrees(t *testing.T) {
	rng := rand.New(rand.NewSource(2))
	for iter := 0; iter < 2000; iter++ {
		p := NewPool()
		l := NewLIA()
		model := map[string]uint64{}
		hiW := 1 + rng.Intn(30)
		hi, lo := p.Var("hi", hiW), p.Var("lo", 32-hiW)
		model["hi"], model["lo"] = rng.Uint64()&mask(hiW), rng.Uint64()&mask(32-hiW)
		base := p.Concat(hi, lo)
		m := uint64(0xffffffff) << uint(32-hiW) & 0xffffffff
		start := p.Bin(OpBvAnd, base, p.BV(m, 32))
		end := p.Bin(OpBvOr, start, p.BV(m^0xffffffff, 32))
		// reassemble from bytes as encoding/binary does
		by := func(x *Term, i int) *Term { return p.Zext(p.Extract(x, 8*i+7, 8*i), 32) }
		re := p.Bin(OpBvOr, p.Bin(OpBvOr, by(start, 0), p.Bin(OpBvShl, by(start, 1), p.BV(8, 32))),
			p.Bin(OpBvOr, p.Bin(OpBvShl, by(start, 2), p.BV(16, 32)), p.Bin(OpBvShl, by(start, 3), p.BV(24, 32))))
		if re != start {
			t.Fatalf("byte reassembly not cancelled: %s vs %s", re.String(), start.String())
		}
		a := p.Var("a", 32)
		model["a"] = uint64(rng.Uint32())
		f := p.And(p.Not(p.Bin(OpBvSlt, p.Zext(a, 64), p.Zext(start, 64))), p.Not(p.Bin(OpBvSlt, p.Zext(end, 64), p.Zext(a, 64))))
		if !l.boolOK(f) {
			t.Fatalf("range membership of a masked concat is not LIA-safe: %s", f.String())
		}
		want := model["a"]&m == (model["hi"]<<uint(32-hiW)|model["lo"])&m
		if got := Eval(f, model) != 0; got != want {
			t.Fatalf("cidr membership mismatch")
		}
	}
}
