package smt

import "sort"

// Bit-slice normal form for bit-vector terms built by placing bit ranges (byte splitting and
// re-assembly, masking with constants, shifts by constants). A view describes a term as disjoint
// pieces: bits [srcLo, srcLo+w) of src placed at [dstLo, dstLo+w); uncovered bits are 0.
// Rebuilding from the merged view cancels extract/shift/or chains (e.g. BigEndian.Uint32 over the
// bytes of a 32-bit term gives the term back) and turns masks of concatenations into
// concatenations, which the integer view (lia.go) can express.

type piece struct {
	src          *Term // nil = constant bits val
	val          uint64
	srcLo, w, lo int
}

func (p *Pool) view(t *Term) []piece {
	if v, ok := p.views[t]; ok {
		return v
	}
	v := p.view1(t)
	p.views[t] = v
	return v
}

func atom(t *Term) []piece { return []piece{{src: t, srcLo: 0, w: t.W, lo: 0}} }

func constPieces(val uint64, w, lo int) []piece {
	if w <= 0 {
		return nil
	}
	val &= mask(w)
	if val == 0 {
		return nil
	}
	return []piece{{val: val, w: w, lo: lo}}
}

// restrict keeps the bits [lo, hi] of the view and shifts them down by lo.
func restrict(v []piece, lo, hi int) []piece {
	var out []piece
	for _, pc := range v {
		a, b := pc.lo, pc.lo+pc.w-1
		if b < lo || a > hi {
			continue
		}
		na, nb := a, b
		if na < lo {
			na = lo
		}
		if nb > hi {
			nb = hi
		}
		q := pc
		q.w = nb - na + 1
		if pc.src != nil {
			q.srcLo = pc.srcLo + (na - a)
		} else {
			q.val = (pc.val >> uint(na-a)) & mask(q.w)
			if q.val == 0 {
				continue
			}
		}
		q.lo = na - lo
		out = append(out, q)
	}
	return out
}

func shiftUp(v []piece, c, w int) []piece {
	var out []piece
	for _, pc := range restrict(v, 0, w-1-c) {
		pc.lo += c
		out = append(out, pc)
	}
	return out
}

func overlaps(a, b []piece) bool {
	for _, x := range a {
		for _, y := range b {
			if x.lo <= y.lo+y.w-1 && y.lo <= x.lo+x.w-1 {
				return true
			}
		}
	}
	return false
}

func (p *Pool) view1(t *Term) []piece {
	switch t.Op {
	case OpConst:
		return constPieces(t.Val, t.W, 0)
	case OpExtract:
		return restrict(p.view(t.Args[0]), t.Lo, t.Hi)
	case OpZext:
		return p.view(t.Args[0])
	case OpConcat:
		lo := p.view(t.Args[1])
		hi := shiftUp(p.view(t.Args[0]), t.Args[1].W, t.W)
		return append(append([]piece{}, lo...), hi...)
	}
	return atom(t)
}

// runs returns the maximal runs [lo,hi] of bits equal to bit in the w-bit constant c.
func runs(c uint64, w int, bit uint64) [][2]int {
	var out [][2]int
	i := 0
	for i < w {
		if (c>>uint(i))&1 == bit {
			j := i
			for j+1 < w && (c>>uint(j+1))&1 == bit {
				j++
			}
			out = append(out, [2]int{i, j})
			i = j + 1
		} else {
			i++
		}
	}
	return out
}

// build makes the canonical term of a view of width w.
func (p *Pool) build(v []piece, w int) *Term {
	sort.Slice(v, func(i, j int) bool { return v[i].lo < v[j].lo })
	// merge adjacent compatible pieces
	var m []piece
	for _, pc := range v {
		if n := len(m); n > 0 {
			l := &m[n-1]
			if l.lo+l.w == pc.lo {
				if l.src != nil && l.src == pc.src && l.srcLo+l.w == pc.srcLo {
					l.w += pc.w
					continue
				}
				if l.src == nil && pc.src == nil && l.w+pc.w <= 64 {
					l.val |= pc.val << uint(l.w)
					l.w += pc.w
					continue
				}
			}
		}
		m = append(m, pc)
	}
	// parts from low to high, filling gaps with zeros
	var parts []*Term
	pos := 0
	for _, pc := range m {
		if pc.lo > pos {
			parts = append(parts, p.BV(0, pc.lo-pos))
		}
		if pc.src == nil {
			parts = append(parts, p.BV(pc.val, pc.w))
		} else if pc.srcLo == 0 && pc.w == pc.src.W {
			parts = append(parts, pc.src)
		} else {
			parts = append(parts, p.intern(&Term{Op: OpExtract, W: pc.w, Args: []*Term{pc.src}, Hi: pc.srcLo + pc.w - 1, Lo: pc.srcLo}))
		}
		pos = pc.lo + pc.w
	}
	if pos < w {
		parts = append(parts, p.BV(0, w-pos))
	}
	// merge adjacent constants
	var ps []*Term
	for _, x := range parts {
		if n := len(ps); n > 0 && ps[n-1].IsConst() && x.IsConst() && ps[n-1].W+x.W <= 64 {
			ps[n-1] = p.BV(ps[n-1].Val|x.Val<<uint(ps[n-1].W), ps[n-1].W+x.W)
			continue
		}
		ps = append(ps, x)
	}
	res := ps[0]
	for _, x := range ps[1:] {
		if x.IsConst() && x.Val == 0 && res.Op != OpConcat && !res.IsConst() {
			// leading zeros over a single part: a zero-extension
			res = p.intern(&Term{Op: OpZext, W: res.W + x.W, Args: []*Term{res}})
			continue
		}
		if res.Op == OpZext && false {
			continue
		}
		res = p.intern(&Term{Op: OpConcat, W: res.W + x.W, Args: []*Term{x, res}})
	}
	p.views[res] = m
	return res
}

// interesting: the view is more than the term itself as one atom
func interesting(v []piece, t *Term) bool {
	return !(len(v) == 1 && v[0].src == t && v[0].srcLo == 0 && v[0].lo == 0 && v[0].w == t.W)
}

// normOr tries to express a|b through views (disjoint placements).
func (p *Pool) normOr(a, b *Term) *Term {
	va, vb := p.view(a), p.view(b)
	if !interesting(va, a) && !interesting(vb, b) {
		return nil
	}
	if a.IsConst() || b.IsConst() {
		// or with a constant: ones override, zeros keep
		c, x := a, b
		if b.IsConst() {
			c, x = b, a
		}
		var out []piece
		vx := p.view(x)
		for _, r := range runs(c.Val, c.W, 0) {
			for _, pc := range restrict(vx, r[0], r[1]) {
				pc.lo += r[0]
				out = append(out, pc)
			}
		}
		for _, r := range runs(c.Val, c.W, 1) {
			out = append(out, piece{val: mask(r[1] - r[0] + 1), w: r[1] - r[0] + 1, lo: r[0]})
		}
		return p.build(out, a.W)
	}
	if overlaps(va, vb) {
		return nil
	}
	return p.build(append(append([]piece{}, va...), vb...), a.W)
}

// normAndConst expresses x & c through views.
func (p *Pool) normAndConst(x, c *Term) *Term {
	vx := p.view(x)
	var out []piece
	for _, r := range runs(c.Val, c.W, 1) {
		for _, pc := range restrict(vx, r[0], r[1]) {
			pc.lo += r[0]
			out = append(out, pc)
		}
	}
	res := p.build(out, x.W)
	return res
}

func (p *Pool) normShift(x *Term, c int, left bool) *Term {
	vx := p.view(x)
	if !interesting(vx, x) && left {
		// x << c of an atom: still worth it (concat with zeros is linear in the integer view)
	}
	if c >= x.W {
		return p.BV(0, x.W)
	}
	if left {
		return p.build(shiftUp(vx, c, x.W), x.W)
	}
	return p.build(restrict(vx, c, x.W-1), x.W)
}
