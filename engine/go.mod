module symgo

go 1.23

require golang.org/x/tools v0.29.0

require (
	golang.org/x/mod v0.22.0 // indirect
	golang.org/x/sync v0.10.0 // indirect
	k8s.io/utils v0.0.0-20230726121419-3b25d923346b // indirect
)

require k8s.io/apimachinery v0.29.2
