// symgo: bounded symbolic executor for Go SSA (see /verif/DESIGN.md).
package main

import (
	"bytes"
	"encoding/json"
	"flag"
	"fmt"
	"os"
	"path/filepath"
	"regexp"
	"runtime/debug"
	"runtime/pprof"
	"sort"
	"strconv"
	"strings"
	"time"

	"golang.org/x/tools/go/packages"
	"golang.org/x/tools/go/ssa"
	"golang.org/x/tools/go/ssa/ssautil"

	"symgo/sx"
)

type outHarness struct {
	*sx.HarnessResult
	WallS float64 `json:"wall_s"`
}

type output struct {
	Repo       string                       `json:"repo"`
	Package    string                       `json:"package"`
	LoadS      float64                      `json:"load_s"`
	BuildS     float64                      `json:"build_s"`
	Harnesses  []*sx.HarnessResult          `json:"harnesses"`
	Functions  map[string]int               `json:"functions_encoded"`
	WallS      float64                      `json:"wall_s"`
	Errors     []string                     `json:"errors,omitempty"`
}

func main() {
	repo := flag.String("repo", "/repo", "repository root")
	pkgDir := flag.String("pkg", "", "package directory relative to repo (e.g. pkg/netpol/internal/common)")
	hdir := flag.String("harness", "", "directory with harness .go files to overlay into the package")
	vfFile := flag.String("vf", "", "vf primitives template file (package clause is rewritten)")
	var extras multiFlag
	flag.Var(&extras, "extra", "pkgdir:dir — inject the .go files of dir into another repository package (repeatable)")
	shared := flag.String("shared", "", "directory of shared helper .go files injected with the package clause rewritten")
	pat := flag.String("run", "^ZZ_", "regexp of harness function names")
	out := flag.String("out", "", "output JSON file")
	workers := flag.Int("workers", 16, "worker goroutines")
	maxPaths := flag.Int("maxpaths", 200000, "path budget per harness")
	maxSteps := flag.Int("maxsteps", 5000000, "instruction budget per path")
	models := flag.Int("models", 0, "keep up to N path models per harness (native validation)")
	noCross := flag.Bool("nocross", false, "disable z3 cross-check")
	trace := flag.Bool("trace", false, "trace calls")
	verbose := flag.Bool("v", false, "verbose")
	mapSched := flag.Int("mapsched", -1, "map-iteration schedule mode: max deviating sites (-1 = off)")
	timeout := flag.Int("solver-timeout", 20000, "per query ms")
	wallLimit := flag.Int("wall", 0, "wall-clock limit per harness in seconds (0 = none); exceeding it truncates the exploration")
	seed := flag.Int64("seed", 0, "seed for the sample of paths kept for native validation")
	tier := flag.Int("tier", 0, "value returned by vf_Tier (0 quick, 1 thorough)")
	liaSolver := flag.String("lia-solver", "cvc5", "solver for the integer view (z3|cvc5)")
	crossSolver := flag.String("cross-solver", "cvc5", "second solver (one-shot)")
	cpuprof := flag.String("cpuprofile", "", "write cpu profile")
	flag.Parse()
	if *cpuprof != "" {
		f, _ := os.Create(*cpuprof)
		pprof.StartCPUProfile(f)
		defer pprof.StopCPUProfile()
	}

	gcp := 200
	if v, err := strconv.Atoi(os.Getenv("SYMGO_GOGC")); err == nil {
		gcp = v
	}
	debug.SetGCPercent(gcp)
	t0 := time.Now()
	overlay := map[string][]byte{}
	absPkg := filepath.Join(*repo, *pkgDir)
	pkgName := ""
	if *hdir != "" {
		ents, err := os.ReadDir(*hdir)
		if err != nil {
			fatal(err)
		}
		for _, e := range ents {
			if !strings.HasSuffix(e.Name(), ".go") {
				continue
			}
			b, err := os.ReadFile(filepath.Join(*hdir, e.Name()))
			if err != nil {
				fatal(err)
			}
			overlay[filepath.Join(absPkg, e.Name())] = b
			if pkgName == "" {
				if m := regexp.MustCompile(`(?m)^package (\w+)`).FindSubmatch(b); m != nil {
					pkgName = string(m[1])
				}
			}
		}
	}
	if *shared != "" {
		ents, err := os.ReadDir(*shared)
		if err != nil {
			fatal(err)
		}
		for _, e := range ents {
			if !strings.HasSuffix(e.Name(), ".go") {
				continue
			}
			b, err := os.ReadFile(filepath.Join(*shared, e.Name()))
			if err != nil {
				fatal(err)
			}
			if bytes.Contains(b, []byte("//zz:notfor "+*pkgDir+"\n")) {
				continue // the helper needs imports this package cannot have
			}
			b = regexp.MustCompile(`(?m)^package \w+`).ReplaceAll(b, []byte("package "+pkgName))
			overlay[filepath.Join(absPkg, e.Name())] = b
		}
	}
	for _, ex := range extras {
		parts := strings.SplitN(ex, ":", 2)
		if len(parts) != 2 {
			fatal(fmt.Errorf("bad -extra %q", ex))
		}
		ents, err := os.ReadDir(parts[1])
		if err != nil {
			fatal(err)
		}
		for _, e := range ents {
			if !strings.HasSuffix(e.Name(), ".go") {
				continue
			}
			b, err := os.ReadFile(filepath.Join(parts[1], e.Name()))
			if err != nil {
				fatal(err)
			}
			overlay[filepath.Join(*repo, parts[0], e.Name())] = b
		}
	}
	if *vfFile != "" {
		b, err := os.ReadFile(*vfFile)
		if err != nil {
			fatal(err)
		}
		b = regexp.MustCompile(`(?m)^package \w+`).ReplaceAll(b, []byte("package "+pkgName))
		overlay[filepath.Join(absPkg, "zz_vf.go")] = b
	}
	cfg := &packages.Config{
		Mode:    packages.LoadAllSyntax,
		Dir:     *repo,
		Env:     append(os.Environ(), "GOFLAGS=-mod=mod", "GOPROXY=off", "GOSUMDB=off", "GOTOOLCHAIN=local"),
		Overlay: overlay,
	}
	pkgs, err := packages.Load(cfg, "./"+*pkgDir)
	if err != nil {
		fatal(err)
	}
	var loadErrs []string
	packages.Visit(pkgs, nil, func(p *packages.Package) {
		for _, e := range p.Errors {
			loadErrs = append(loadErrs, e.Error())
		}
	})
	if len(loadErrs) > 0 {
		for _, e := range loadErrs {
			fmt.Fprintln(os.Stderr, "load error:", e)
		}
		writeOut(*out, &output{Repo: *repo, Package: *pkgDir, Errors: loadErrs})
		os.Exit(3)
	}
	loadS := time.Since(t0).Seconds()
	t1 := time.Now()
	prog, spkgs := ssautil.AllPackages(pkgs, ssa.InstantiateGenerics)
	prog.Build()
	buildS := time.Since(t1).Seconds()
	if *verbose {
		fmt.Fprintf(os.Stderr, "loaded in %.1fs, built in %.1fs\n", loadS, buildS)
	}
	var target *ssa.Package
	for _, p := range spkgs {
		if p != nil {
			target = p
		}
	}
	eng := sx.NewEngine(prog)
	eng.Workers = *workers
	eng.MaxPaths = *maxPaths
	eng.MaxSteps = *maxSteps
	eng.CrossCheck = !*noCross
	eng.Trace = *trace
	eng.Verbose = *verbose
	eng.SolverTimeout = *timeout
	eng.Tier = *tier
	eng.Seed = *seed
	eng.WallLimit = time.Duration(*wallLimit) * time.Second
	eng.LIASolver = *liaSolver
	eng.CrossSolver = *crossSolver
	if *mapSched >= 0 {
		eng.MapSchedule = true
		eng.MaxSchedDev = *mapSched
	}
	eng.InitPrefixes = []string{
		"github.com/np-guard/netpol-analyzer/pkg/netpol", "github.com/np-guard/netpol-analyzer/pkg/internal",
		"github.com/np-guard/netpol-analyzer/pkg/manifests/parser", "github.com/np-guard/netpol-analyzer/pkg/logger",
		"github.com/np-guard/netpol-analyzer/pkg/cli",
		"github.com/np-guard/models/pkg/interval", "github.com/np-guard/models/pkg/netset",
		"k8s.io/apimachinery/pkg/labels", "k8s.io/apimachinery/pkg/selection", "k8s.io/apimachinery/pkg/util/sets",
		"k8s.io/apimachinery/pkg/util/validation/field", "k8s.io/apimachinery/pkg/util/errors",
		"github.com/hashicorp/golang-lru/v2",
	}
	re := regexp.MustCompile(*pat)
	var names []string
	for name, mem := range target.Members {
		if f, ok := mem.(*ssa.Function); ok && re.MatchString(name) && f.Signature.Params().Len() == 0 {
			names = append(names, name)
		}
	}
	sort.Strings(names)
	res := &output{Repo: *repo, Package: *pkgDir, LoadS: loadS, BuildS: buildS}
	for _, n := range names {
		f := target.Func(n)
		hr := eng.RunHarness(f, *models)
		res.Harnesses = append(res.Harnesses, hr)
		fmt.Fprintf(os.Stderr, "%-40s paths=%d %v oblig=%d discharged=%d unknown=%d viol=%d wall=%.1fs\n",
			n, hr.Paths, hr.ByStatus, hr.Obligations, hr.Discharged, hr.Unknown, len(hr.Violations), hr.Wall.Seconds())
		for k, c := range hr.Unsupported {
			fmt.Fprintf(os.Stderr, "    [%d] %s\n", c, k)
		}
		if *verbose {
			for _, v := range hr.Violations {
				fmt.Fprintf(os.Stderr, "    VIOL %s %s known=%v model=%v\n", v.Kind, v.Label, v.Known, v.Model)
				if v.Panic != nil {
					fmt.Fprintf(os.Stderr, "         panic %s @ %s in %v\n", v.Panic.Msg, v.Panic.Pos, first(v.Panic.Stack, 3))
				}
			}
		}
	}
	res.Functions = eng.Coverage
	res.WallS = time.Since(t0).Seconds()
	writeOut(*out, res)
}

type multiFlag []string

func (f *multiFlag) String() string     { return strings.Join(*f, ",") }
func (f *multiFlag) Set(s string) error { *f = append(*f, s); return nil }

func first(xs []string, n int) []string {
	if len(xs) > n {
		return xs[:n]
	}
	return xs
}

func writeOut(path string, o *output) {
	if path == "" {
		return
	}
	b, err := json.MarshalIndent(o, "", " ")
	if err != nil {
		fatal(err)
	}
	if err := os.WriteFile(path, b, 0o644); err != nil {
		fatal(err)
	}
}

func fatal(err error) {
	fmt.Fprintln(os.Stderr, "symgo:", err)
	os.Exit(3)
}
