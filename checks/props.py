# Property -> harness groups, tiers and bounds. Read by ./check.
COMMON = "pkg/netpol/internal/common"

PROPS = {
    "C11": dict(
        assumptions=[
            "pre-states satisfy the representation invariant Inv (DESIGN 5/C11); Inv is shown reachable/preserved by the same check",
        ],
        groups=[
            dict(pkg=COMMON, harness="harness/common",
                 quick=dict(run="^ZZ_C11_", bounds="<=2 intervals per protocol per operand (vf_Tier 0)", models=60,
                            outside="more intervals per protocol; more than two port names"),
                 thorough=dict(run="^ZZ_C11_", bounds="<=3 intervals per protocol per operand (vf_Tier 1)", models=600,
                               outside="more intervals per protocol; more than two port names")),
        ],
    ),
}
