# Property -> harness groups, tiers and bounds. Read by ./check.
COMMON = "pkg/netpol/internal/common"
K8S = "pkg/netpol/eval/internal/k8s"
EVAL = "pkg/netpol/eval"
CONNLIST = "pkg/netpol/connlist"
DIFF = "pkg/netpol/diff"

VALIDITY = "inputs satisfy what the Kubernetes API server enforces (DESIGN 3.3): ports 1..65535, endPort>=port, IPv4 CIDRs with excepts strictly inside, valid labels"


def ev(run, bounds, outside, **kw):
    d = dict(run=run, bounds=bounds, outside=outside)
    d.update(kw)
    return d


PROPS = {
    "C11": dict(
        assumptions=[
            "pre-states satisfy the representation invariant Inv (DESIGN 5/C11); Inv is shown reachable/preserved by the same check",
        ],
        groups=[
            dict(pkg=COMMON, harness="harness/common",
                 quick=ev("^ZZ_C11_", "focus protocol with <=1 symbolic interval (17-bit endpoints covering 1..65535) and one port name; other protocols absent/full",
                          "more intervals per protocol; more than one port name; named-port semantics of Intersection/Subtract", models=60),
                 thorough=ev("^ZZ_C11_", "focus protocol with <=2 symbolic intervals; other protocols absent/full/fixed partial range",
                             "more intervals per protocol; more than one port name", models=600)),
        ],
    ),
    "C01": dict(
        assumptions=[VALIDITY, "oracle R_np (harness/shared/zz_oracle.go) is the reading of Kubernetes NetworkPolicy semantics"],
        groups=[
            dict(pkg=EVAL, harness="harness/eval", shared="harness/shared",
                 quick=ev("^ZZ_C01_(OnePolicy|SharedCidrBlocks)$", "3 workloads in 2 namespaces (with/without Namespace objects), one NetworkPolicy from menus: 3 selectors x 4 policyTypes x "
                          "{no rule, one ingress rule, one egress rule} x 5 peer shapes (incl. ipBlock with <=1 except, prefix lengths {0,24,32}) x 5 port shapes "
                          "(range, protocol-only, named, two entries); all ordered peer pairs; symbolic ports, port ranges, container port, CIDR bits, address",
                          "more policies/rules; other prefix lengths; IPv6", models=40),
                 thorough=ev("^ZZ_C01_(OnePolicy|SharedCidrBlocks)$", "the quick bound again (the larger menus do not finish in 15 minutes: DESIGN 10.8) with 300 natively re-run sampled paths", "as quick", models=300, menus=0)),
            dict(pkg=K8S, harness="harness/k8s", shared="harness/shared",
                 quick=ev("^ZZ_LEAF_RulePorts$", "leaf: the port part of one NetworkPolicy rule with 1-2 entries of 9 kinds (protocol only, defaulted protocol, port..endPort on TCP/UDP, port names http/metrics on the rule protocol, SCTP number) against a pod "
                          "declaring http on ''/TCP/UDP and optionally metrics on TCP/UDP (symbolic numbers) or an IP destination; ruleConnections (list) and ruleConnsContain (eval, protocol in both spellings, port as decimal text) vs the oracle at a symbolic point",
                          "more than 2 entries; duplicate container-port names", models=40),
                 thorough=ev("^ZZ_LEAF_RulePorts$", "the quick bound again (three entries did not finish in 25 minutes) with 200 natively re-run sampled paths", "as quick", models=200, menus=0)),
        ],
    ),
    "C02": dict(
        assumptions=[VALIDITY, "oracle R_adm (zz_oracle.go) is the reading of the ANP/NP/BANP layering; ANP priorities pairwise distinct in 0..1000 (C19 covers the rest)"],
        groups=[
            dict(pkg=EVAL, harness="harness/eval", shared="harness/shared",
                 quick=ev("^ZZ_C02_", "2 ANPs with symbolic distinct priorities inserted in index order (every relative order of position and priority), "
                          "first ANP from 24 shapes with a symbolic port range, second selecting everything with any action; optional BANP; optional NetworkPolicy with a symbolic range; all pairs; "
                          "RuleOrder: one ANP or the BANP with two rules (every pair of actions x 2 peers x {all ports, UDP n + TCP m symbolic}) — the first matching rule decides",
                          "more ANPs/rules per ANP; richer subjects; equal priorities", models=40),
                 thorough=ev("^ZZ_C02_", "the quick bound again (the larger menus do not finish in 15 minutes: DESIGN 10.8) with 300 natively re-run sampled paths", "as quick", models=300, menus=0)),
            dict(pkg=K8S, harness="harness/k8s", shared="harness/shared",
                 quick=ev("^ZZ_LEAF_AdminRulePorts$", "leaf: the port part of one ANP/BANP rule: nil, empty or 1-2 entries of 9 kinds (portNumber on TCP/defaulted/UDP, portRange on TCP/UDP/defaulted, named ports http, metrics, an undeclared name) against a pod "
                          "declaring http on ''/TCP/UDP and optionally metrics on UDP (symbolic numbers); the admin ruleConnections (list) and anpPortContains (eval, mixed protocol spellings, port as decimal text) vs the oracle at a symbolic point",
                          "more than 2 entries", models=40)),
        ],
    ),
    "C03": dict(
        assumptions=[VALIDITY],
        groups=[
            dict(pkg=EVAL, harness="harness/eval", shared="harness/shared",
                 quick=ev("^ZZ_C03_", "CheckIfAllowed vs the connection set of the same engine vs the oracle, one ordered pair per path (all pairs explored), three protocols in mixed spellings, "
                          "symbolic port rendered as decimal text, IP peers as dotted-quad text of a symbolic address; NetworkPolicy worlds (reduced menus) and ANP/BANP worlds",
                          "CLI eval command (pkg/cli) — see C03 group cli; larger worlds", models=40),
                 thorough=ev("^ZZ_C03_", "the quick bound again (the larger menus do not finish inside the time a check may take here: see DESIGN 10.8) with 300 natively re-run sampled paths", "as quick", models=300, menus=0)),
            dict(pkg="pkg/cli", harness="harness/cli", shared="harness/shared",
                 quick=ev("^ZZ_C03_CLI", "the eval command body (validateEvalFlags + runEvalCommand with --dirpath) on 3 pods in 2 namespaces (with/without Namespace manifests), no policy or one NetworkPolicy from the reduced C01 menus; "
                          "queries pod->pod, IP->pod, pod->IP, pod->itself for every pod, 3 protocols, symbolic port and address as flag text; the printed verdict compared with the list side by the solver. "
                          "Environment stubs: manifest scanner (in-memory directory; natively real files), standard output",
                          "cobra flag parsing and process exit status; live-cluster mode", models=40),
                 thorough=ev("^ZZ_C03_CLI", "the quick bound again with 200 natively re-run sampled paths (real files, real scanner)", "as quick", models=200, menus=0)),
            dict(pkg=K8S, harness="harness/k8s", shared="harness/shared",
                 quick=ev("^ZZ_LEAF_RulePorts$", "leaf: the port part of one NetworkPolicy rule with 1-2 entries of 9 kinds (protocol only, defaulted protocol, port..endPort on TCP/UDP, port names http/metrics on the rule protocol, SCTP number) against a pod "
                          "declaring http on ''/TCP/UDP and optionally metrics on TCP/UDP (symbolic numbers) or an IP destination; ruleConnections (list) and ruleConnsContain (eval, protocol in both spellings, port as decimal text) vs the oracle at a symbolic point",
                          "more than 2 entries; duplicate container-port names", models=40),
                 thorough=ev("^ZZ_LEAF_RulePorts$", "the quick bound again (three entries did not finish in 25 minutes) with 200 natively re-run sampled paths", "as quick", models=200, menus=0)),
        ],
    ),
    "C05": dict(
        assumptions=[VALIDITY],
        groups=[
            dict(pkg=EVAL, harness="harness/eval", shared="harness/shared",
                 quick=ev("^ZZ_C05_", "IP partition: 2 rule ipBlocks (symbolic network bits, prefix lengths {0,24,32}), <=1 except on the first; two symbolic addresses",
                          "more blocks/excepts; other prefix lengths", models=40),
                 thorough=ev("^ZZ_C05_", "the quick bound again (the larger prefix menus do not finish in 15 minutes: DESIGN 10.8) with 300 natively re-run sampled paths", "as quick", models=300, menus=0)),
            dict(pkg=CONNLIST, harness="harness/connlist", shared="harness/shared",
                 quick=ev("^ZZ_C05_", "relation shape and list = per-pair answers: 3 workloads, one NetworkPolicy (reduced menus) / two policies / ANP+BANP, a concrete ipBlock with except, symbolic ports",
                          "larger worlds; exposure and ingress lines are covered by C06/C10", models=40),
                 thorough=ev("^ZZ_C05_", "the quick bound again (the larger menus do not finish inside the time a check may take here: see DESIGN 10.8) with 300 natively re-run sampled paths", "as quick", models=300, menus=0)),
        ],
    ),
    "C19": dict(
        assumptions=["the error is observed at NewPolicyEngineWithObjects + GetPeersList (what list and diff call); fatal classification in connlist is covered with C13"],
        groups=[
            dict(pkg=EVAL, harness="harness/eval", shared="harness/shared",
                 quick=ev("^ZZ_C19_", "1..5 ANPs with priorities over all of int32 (real pdqsort/insertion-sort code executed for every order of the values); "
                          "name/singleton/owner-label conflicts at every pair of positions among 5 other resources",
                          "more than 5 ANPs (pdqsort switches strategy above 12 elements)", models=40),
                 thorough=ev("^ZZ_C19_", "1..6 ANPs", "more than 6 ANPs; n>12 where pdqsort leaves insertion sort", models=300)),
        ],
    ),
    "C15": dict(
        assumptions=["'fresh engine' = NewPolicyEngineWithObjects(current objects); states whose Namespace object was deleted are outside the answer comparison (crash freedom still checked)",
                     "SetResources is modelled as the InsertObject calls its documentation names (namespaces, policies, pods; stops at the first error)"],
        groups=[
            dict(pkg=EVAL, harness="harness/eval", shared="harness/shared",
                 quick=ev("^ZZ_C15_(History|CacheKeys|PortUpdate)$", "histories of 2 operations (the first optionally followed by a query) from 6 base states, over 23 operations: insert/update/delete of a namespace (two label variants), "
                          "2 owned pods, updates of a pod (other labels under the same owner; another owner), a NetworkPolicy in two variants, 3 ANPs with symbolic priorities, the BANP, ClearResources, SetResources; policy port ranges symbolic. "
                          "CacheKeys: a verdict cached for one query never answers another (direction, protocol, protocol spelling, port, port prefix). "
                          "PortUpdate: a Pod / Deployment replaced by one with the same owner and labels but another number (symbolic) behind the named port the policy allows",
                          "longer histories (thorough: 3 over two half alphabets); LRU eviction (needs >500 keys)", models=60),
                 thorough=ev("^ZZ_C15_", "the quick bound plus histories of 3 operations over each of two half alphabets (15 namespace/pod/NetworkPolicy/Clear/SetResources operations; 12 namespace/ANP/BANP operations); 400 natively re-run sampled paths",
                             "histories of 3 operations mixing the two halves; longer histories; LRU eviction", models=400, menus=0, maxpaths=1500000)),
        ],
    ),
    "C12": dict(
        assumptions=["scope: everything after YAML decoding (typed objects); the decoders and the file scanner for arbitrary bytes are outside reach (DESIGN section 7)",
                     "no validity assumption on the hostile object: every pointer may be nil, every slice nil/empty/short, every map nil/empty/one entry, integers and booleans unconstrained symbolic, strings from hostile pools"],
        groups=[
            dict(pkg=CONNLIST, harness="harness/connlist", shared="harness/shared",
                 quick=ev("^ZZ_C12_", "for each of the 15 kinds: one lazily materialised unconstrained object next to a fixed context, pushed through list (plain / exposure / focus); "
                          "all shapes within <=3 simultaneous structural mutations (nil, empty, longer, other pool string) of the fully populated object, slices <=1",
                          "more simultaneous mutations; longer slices; panics inside YAML/JSON decoding", models=30),
                 thorough=ev("^ZZ_C12_", "the quick bound again (<=4 mutations with slices <=2 does not finish in 15 minutes) with 400 natively re-run sampled paths", "as quick", models=400, menus=0)),
            dict(pkg=EVAL, harness="harness/eval", shared="harness/shared",
                 quick=ev("^ZZ_C12_", "eval path: InsertObject one by one + CheckIfAllowed (4 query kinds) with a hostile NetworkPolicy / ANP / BANP / Pod / Namespace", "as above", models=30),
                 thorough=ev("^ZZ_C12_", "the quick bound again with 400 natively re-run sampled paths", "as quick", models=400, menus=0)),
        ],
    ),
    "C16": dict(
        assumptions=[VALIDITY],
        groups=[
            dict(pkg=CONNLIST, harness="harness/connlist", shared="harness/shared",
                 quick=ev("^ZZ_C16_", "4 workloads (the name 'a' in two namespaces), a NetworkPolicy with a symbolic port range, with/without Service+Ingress, exposure on/off; "
                          "8 focus values (name, ns/name, absent name, absent namespace, ingress-controller); focused report compared entry by entry with the filtered unfocused one, connections compared by the solver",
                          "output formats (C09 territory); larger worlds", models=40)),
        ],
    ),
    "C17": dict(
        assumptions=[VALIDITY],
        groups=[
            dict(pkg=CONNLIST, harness="harness/connlist", shared="harness/shared",
                 quick=ev("^ZZ_C17_", "one pod template as each of 7 controller kinds and as 1-3 bare pods with one owner, replicas/parallelism nil or any int32 (symbolic), "
                          "next to a second workload and a policy with symbolic range and a named port; compared with the Deployment/no-replicas baseline; "
                          "pairs of workloads with colliding names (a, a-1, same name under two kinds)",
                          "more than 3 pods per owner; more workloads", models=40)),
        ],
    ),
    "C10": dict(
        assumptions=[VALIDITY, "service port numbers and names unique within a Service; Route designation = the tool's documented reading (DESIGN 5/C10)"],
        groups=[
            dict(pkg=CONNLIST, harness="harness/connlist", shared="harness/shared",
                 quick=ev("^ZZ_C10_", "one workload with two container ports (symbolic number, protocol ''/TCP/UDP), a Service (matching / not matching selector) with 1-2 ports "
                          "(symbolic port, targetPort unset / symbolic number / name), an Ingress (default backend or rule path; backend by symbolic number / existing name / missing name) "
                          "or a Route (no port / symbolic number / name); no policy / policy with symbolic TCP range / policy blocking the controller; symbolic probe port",
                          "several Services / Ingresses / alternate backends; more container ports", models=40)),
        ],
    ),
    "C06": dict(
        assumptions=[VALIDITY, "hypothetical pods range over a label vocabulary (app in {b,q,other,absent}, optional fresh label) in an existing or new namespace (with/without labels), declaring a named port with a symbolic number"],
        groups=[
            dict(pkg=CONNLIST, harness="harness/connlist", shared="harness/shared",
                 quick=ev("^ZZ_C06_", "one protected workload, one policy with one rule (ingress or egress) from 10 peer shapes (label equalities, expressions, entire cluster, ipBlock, two peers, "
                          "selectors an existing workload satisfies) x 4 port shapes (all, symbolic range, protocol-only, named); base report compared with the run without the flag; protected flags vs oracle; "
                          "every entry vs every hypothetical pod (32 shapes) by the solver; policy in a namespace without workloads",
                          "admin policies (exposure is disabled with them by design); more rules/policies", models=40),
                 thorough=ev("^ZZ_C06_", "the quick bound again (the larger menus do not finish inside the time a check may take here: see DESIGN 10.8) with 300 natively re-run sampled paths", "as quick", models=300, menus=0)),
        ],
    ),
    "C07": dict(
        assumptions=[VALIDITY, "as C06; the documented omission (a rule peer of label equalities only that an existing workload in a matching namespace satisfies) is modelled by zzOmittedPeer"],
        groups=[
            dict(pkg=CONNLIST, harness="harness/connlist", shared="harness/shared",
                 quick=ev("^ZZ_C06_C07_", "as C06: for every hypothetical pod and (protocol, symbolic port) allowed by the oracle, some reported entry the pod satisfies covers it, or the documented omission applies",
                          "as C06", models=40),
                 thorough=ev("^ZZ_C06_C07_", "the quick bound again (the larger menus do not finish inside the time a check may take here: see DESIGN 10.8) with 300 natively re-run sampled paths", "as quick", models=300, menus=0)),
        ],
    ),
    "C04": dict(
        assumptions=[VALIDITY, "c1 and c2 are read off the two list results the diff was computed from (the property's own definition); connections carry concrete contents (the diff keys and compares them by their canonical text)"],
        groups=[
            dict(pkg=DIFF, harness="harness/diff", shared="harness/shared", extra=[["pkg/netpol/connlist", "harness/extra_connlist"]],
                 quick=ev("^ZZ_C04_", "two worlds: workloads a,b (side 2 optionally with a new workload or without b), each side no policy or a policy with egress to a symbolic ipBlock "
                          "(prefix lengths {0,24}; except on side 1) and to app=b, port shapes per rule; TwoBlocks: two symbolic /24 blocks with different ports on one side against one block on the other; "
                          "SameNameIngress: workloads named a in two namespaces governed by the same policy, ranges as sources or destinations; "
                          "one symbolic external address and all workload pairs checked against the four diff lists; diff(A,A)",
                          "more than two ipBlocks per side; other prefix lengths; ingress-controller lines; output formats", models=40),
                 thorough=ev("^ZZ_C04_", "the quick bound again (the larger prefix menus do not finish in 15 minutes: DESIGN 10.8) with 300 natively re-run sampled paths", "as quick", models=300, menus=0)),
        ],
    ),
    "C13": dict(
        assumptions=["partial: the logic around the readers. The file scanner and the unstructured->typed converter are environment: under symgo the conversion hands back the typed object the harness registered (or fails); natively the real converter runs on equivalent unstructured content",
                     "not claimed: that the real scanner/decoder classify arbitrary bytes that way (DESIGN section 7)"],
        groups=[
            dict(pkg=CONNLIST, harness="harness/connlist", shared="harness/shared",
                 quick=ev("^ZZ_C13_", "ConnlistFromResourceInfos on good resource infos plus <=2 bad documents of 3 kinds (unused kind, non-unstructured object, failing schema conversion) at every position, stopOnError on/off; "
                          "connections compared with the clean input by the solver (symbolic policy range); severe errors counted",
                          "ConnlistFromDirPath / file scanning; more than 2 bad documents", models=40)),
            dict(pkg=DIFF, harness="harness/diff", shared="harness/shared", extra=[["pkg/netpol/connlist", "harness/extra_connlist"]],
                 quick=ev("^ZZ_C13_", "ConnDiffFromDirPaths (scanner stub; natively real files) with a syntactically broken file in the first and/or second directory at every position, stop-on-first-error on/off: one severe error per broken file attributed to its own directory, same diff as the clean directories; "
                          "ConnDiffFromResourceInfos on two good inputs (symbolic policy ranges) plus <=1 (thorough: <=2) bad documents of 3 kinds in either input at either end, "
                          "optionally a document causing a fatal error (ipBlock that is not a CIDR) at the end of either input, stopOnError on/off; diff rows compared with the clean diff by the solver; "
                          "severe errors counted; fatal => error and no result",
                          "ConnDiffFromDirPaths / file scanning", models=40)),
        ],
    ),
    "C14": dict(
        assumptions=[VALIDITY, "oracle-free: only relations between two runs of the real engine are asserted (no reference semantics)"],
        groups=[
            dict(pkg=EVAL, harness="harness/eval", shared="harness/shared",
                 quick=ev("^ZZ_C14_", "4 workloads in 2 namespaces; (a) a policy (2 selectors x 4 peer shapes x 2 port shapes x direction) plus one added rule (5 peer shapes incl. symbolic CIDR with <=1 except, prefix lengths {0,24,32}; 3 port shapes) in a direction it governs: never removes; "
                          "(b-d) adding a second policy (3 selectors x 4 peers x 2 ports x direction) with/without a first one: additive when all its pods were governed, restrictive when none was, unselected pairs unchanged; "
                          "(e) 5 equivalent spellings (matchLabels/In, range/two adjacent ranges at a symbolic split, CIDR/two halves for prefix lengths {0,8,24,31}, one policy/two policies, explicit/defaulted policyTypes). "
                          "Compared at every ordered workload pair and workload<->symbolic IPv4 address, 3 protocols, symbolic port",
                          "admin policies in the metamorphic relations; more rules per policy; IPv6", models=30),
                 thorough=ev("^ZZ_C14_", "the quick bound again (the larger menus do not finish inside the time a check may take here: see DESIGN 10.8) with 200 natively re-run sampled paths", "as quick", models=200, menus=0)),
        ],
    ),
    "C08": dict(
        assumptions=["partial: order independence of the library results rendered as txt / md / dot text; the map-iteration order of the Go runtime is a scheduler choice of the engine "
                     "(each `range` over a map may start at any entry or run backwards), explored exhaustively for at most K deviating sites per run; "
                     "symbolic ports keep the texts symbolic, so equality of the two texts is a solver query",
                     "not claimed: csv and json renderings (encoding/csv over bufio byte buffers, encoding/json reflection: not interpretable with symbolic text), "
                     "the diff formats, the split of documents over files (the scanner is I/O; C13 DirPath covers placement for the connections), process-level byte identity (C18 N/A)"],
        groups=[
            dict(pkg=CONNLIST, harness="harness/connlist", shared="harness/shared",
                 quick=ev("^ZZ_C08_", "3 workloads in 2 namespaces, two NetworkPolicies with 3+2 rule peers and 2+2 port entries (symbolic ports in one relative order), plus one of {nothing, two ANPs, services+ingress objects in 4 namespaces, two more policies on the same workload}; "
                          "second run with the documents permuted (reversed documents; policies first with reversed rule peers/ports/rules; rotated with the admin policies swapped) and the map schedule free at <=1 site per run (every rotation and the reversal); "
                          "list and exposure reports in txt, md, dot compared with the reference run",
                          "K>=2 simultaneous deviating map sites (thorough: 2 for the list report); csv/json; diff formats", models=30, mapsched=1, native_repeat=200),
                 thorough=ev("^ZZ_C08_List$", "the list report as quick with <=2 simultaneously deviating map sites", "K>=3 deviating sites", models=100, mapsched=2, native_repeat=200)),
            dict(pkg=DIFF, harness="harness/diff", shared="harness/shared", extra=[["pkg/netpol/connlist", "harness/extra_connlist"]],
                 quick=ev("^ZZ_C08_Diff$", "diff report in txt, md, dot: 2 workloads, side 1 with one CIDR or a pair of CIDRs, side 2 with no policy, another CIDR (the block moved) or the pair, symbolic port range per side "
                          "(the solver covers equal and different connection texts); second run with the documents and the rule peers of both inputs reversed and the map schedule free at <=1 site",
                          "K>=2 deviating map sites; csv/json of the diff; larger inputs", models=30, mapsched=1, native_repeat=200),
                 thorough=ev("^ZZ_C08_Diff$", "the diff report as quick (<=1 deviating map site; two simultaneously deviating sites did not finish in 20 minutes)", "K>=2 deviating sites for the diff report", models=100, mapsched=1, native_repeat=200)),
            dict(pkg=CONNLIST, harness="harness/connlist", shared="harness/shared",
                 thorough=ev("^ZZ_C08_Exposure$", "the exposure report as quick (<=1 deviating map site)", "K>=2 deviating sites for the exposure report", models=100, mapsched=1, native_repeat=200)),
        ],
    ),
    "C09": dict(
        assumptions=["partial: txt and md of the list report (with/without exposure) and of the diff report. The reference encoder (harness) is written from the layout of the two formats, reads the relation through the public accessors "
                     "and renders a connection with ConnectionSet.String (a different routine than the formatters' ConnStrFromConnProperties)",
                     "dot of the plain list report (nodes grouped by namespace, external nodes, one labelled edge per entry) against a reference written from the layout of the format; representative-peer selectors are rendered by the reference itself, not by the formatter's helper",
                     "not claimed: json, csv (reflection / bufio byte buffers cannot carry symbolic text), dot of the exposure and diff reports; 'parsing back' is replaced by equality with the reference encoding, which is stronger for the formats covered"],
        groups=[
            dict(pkg=CONNLIST, harness="harness/connlist", shared="harness/shared",
                 quick=ev("^ZZ_C09_", "the C08 world (3-5 workloads, 2-4 policies, optional ANPs / ingress objects, IP ranges) with every relative order of the symbolic ports (multi-range and multi-protocol port sets), exposure on/off; txt and md",
                          "json, csv, dot", models=40)),
            dict(pkg=DIFF, harness="harness/diff", shared="harness/shared", extra=[["pkg/netpol/connlist", "harness/extra_connlist"]],
                 quick=ev("^ZZ_C09_", "two inputs: workloads a,b (+ new workload / lost workload), a policy with a symbolic TCP range (+ a symbolic UDP port) on each side or none on side 2, IP ranges, optional ingress-controller entries in all three categories; txt and md of the diff with names dir1/dir2",
                          "csv, dot", models=40)),
        ],
    ),
    "C18": dict(
        assumptions=["partial, in-process: the bodies of the list and diff commands (runListCommand / runDiffCommand reading their flag variables) against the library calls with the same options. "
                     "Environment stubs: manifest scanner (vf_RegisterDir; natively real files), standard output (vf_CaptureStdout; natively a pipe), logging",
                     "not claimed: cobra flag parsing, the process exit status of the built binary, -f FILE (file I/O), json/csv output (cannot carry symbolic text), live-cluster mode"],
        groups=[
            dict(pkg="pkg/cli", harness="harness/cli", shared="harness/shared",
                 quick=ev("^ZZ_C18_", "list: 4 workloads in 2 namespaces, optional policy with a symbolic range (pod, namespace+pod and ipBlock peers), optional irrelevant / schema-broken / fatal document, optional unreadable file at either end; "
                          "flags: -o txt|md|dot x --exposure x --focusworkload {none, a, ns1/a, nosuch} x --fail x -q/-v; stdout == library string, failure iff library failure, resource-info API == directory API. "
                          "diff: two such directories, -o txt|md|dot x --fail",
                          "-f FILE; json/csv; exit status; flag parsing", models=40)),
        ],
    ),
}
