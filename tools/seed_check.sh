#!/bin/bash
# usage: seed_check.sh <PROP> <patch.diff> [tier] — applies a (previously confirmed) seeded change to /repo, runs the check, reverts
P=$1; D=$2; TIER=${3:-quick}
cd /verif && git -C /repo apply $D && { ./check $P $TIER 2>&1 | grep -v "^ZZ_" | tail -6; echo "check exit=${PIPESTATUS[0]}"; }; git -C /repo checkout -- .
