#!/bin/bash
# usage: seed_try.sh <PROP> <seed_dir> <scratch_worktree> [tier]
# 1. confirms in the scratch worktree that the demo fails with the patch and passes without, and that the suite passes with it
# 2. applies the patch in the scratch worktree, runs the check against it (VERIF_REPO), reverts
set -u
P=$1; S=$2; W=$3; TIER=${4:-quick}
export GOFLAGS=-mod=mod GOPROXY=off GOSUMDB=off GOTOOLCHAIN=local
PKG=$(grep -m1 -o 'place in: *[^ ]*' $S/demo_test.go | sed 's/place in: *//')
[ -z "$PKG" ] && { echo "no package marker in demo_test.go"; exit 9; }
cd $W && git checkout -q -- pkg && git apply $S/patch.diff || { echo "patch does not apply in scratch"; exit 9; }
cp $S/demo_test.go $W/$PKG/zz_seed_demo_test.go
(cd $W && go test -vet=off -count=1 ./$PKG/ -run 'Seed|seed|Demo|demo|TestC[0-9][0-9]' 2>&1 | tail -3) > /tmp/seed_with.log
grep -q "^FAIL\|--- FAIL" /tmp/seed_with.log && echo "demo WITH patch: FAIL (expected)" || { echo "demo WITH patch did not fail:"; cat /tmp/seed_with.log; }
rm $W/$PKG/zz_seed_demo_test.go
python3 /verif/tools/baseline_check.py $W | tail -1
cd $W && git checkout -q -- pkg && rm -f test_outputs/connlist/actual_* 
cp $S/demo_test.go $W/$PKG/zz_seed_demo_test.go
(cd $W && go test -vet=off -count=1 ./$PKG/ -run 'Seed|seed|Demo|demo|TestC[0-9][0-9]' 2>&1 | tail -3) > /tmp/seed_without.log
grep -q "^ok" /tmp/seed_without.log && echo "demo WITHOUT patch: PASS (expected)" || { echo "demo WITHOUT patch did not pass:"; cat /tmp/seed_without.log; }
rm $W/$PKG/zz_seed_demo_test.go; rm -f $W/test_outputs/connlist/actual_*
[ -n "${SKIP_CHECK:-}" ] && exit 0
# the check runs against the scratch worktree (VERIF_REPO), so /repo is never touched and other checks may run meanwhile
cd $W && git checkout -q -- . && git apply $S/patch.diff && cd /verif && { VERIF_REPO=$W ./check $P $TIER 2>&1 | grep -v "^ZZ_" | tail -6; echo "check exit=${PIPESTATUS[0]}"; }; git -C $W checkout -q -- .
