#!/usr/bin/env python3
"""seed_save.py <ID> <PROP> <seed_dir> <caught_by> <needs...>: keep a confirmed seeded change under /verif/seeded/<ID>/"""
import json, os, shutil, sys
sid, prop, sdir, caught = sys.argv[1:5]
needs = " ".join(sys.argv[5:])
d = os.path.join("/verif/seeded", sid)
os.makedirs(d, exist_ok=True)
for f in ("patch.diff", "demo_test.go", "notes.md"):
    if os.path.exists(os.path.join(sdir, f)):
        shutil.copy(os.path.join(sdir, f), os.path.join(d, f if f != "demo_test.go" else "demo_test.go.txt"))
json.dump(dict(id=sid, property=prop, needs=needs, caught_by=caught,
               ran=["tools/seed_try.sh: demo test fails with the patch and passes without it in a scratch worktree; baseline suite (830 stable tests) passes with the patch",
                    "git -C /repo apply patch.diff; ./check %s quick; git -C /repo checkout -- ." % prop]),
          open(os.path.join(d, "meta.json"), "w"), indent=1)
print("saved", d)
