#!/usr/bin/env python3
"""Run the repository's test suite (guard off) in DIR (default /repo) and compare with BASELINE.json stable_pass."""
import json, os, subprocess, sys
d = sys.argv[1] if len(sys.argv) > 1 else "/repo"
env = dict(os.environ, GOFLAGS="-mod=mod", GOPROXY="off", GOSUMDB="off", GOTOOLCHAIN="local")
p = subprocess.run(["go", "test", "-json", "-vet=off", "-count=1", "-timeout", "25m", "./..."], cwd=d, env=env, capture_output=True, text=True)
res = {}
for l in p.stdout.splitlines():
    try:
        e = json.loads(l)
    except Exception:
        continue
    if e.get("Action") in ("pass", "fail", "skip") and e.get("Test"):
        res[e["Package"] + "::" + e["Test"]] = e["Action"]
base = json.load(open("/root/.vp/BASELINE.json"))["stable_pass"]
bad = [t for t in base if res.get(t) != "pass"]
print("tests run: %d, baseline stable_pass: %d, not passing now: %d" % (len(res), len(base), len(bad)))
for t in bad[:40]:
    print("  ", t, res.get(t))
sys.exit(1 if bad else 0)
