#!/bin/bash
# usage: seed_all.sh [<scratch dir>] — regression of every kept seeded change against the current checks, in a scratch
# (optional second argument: regex on the seed id) worktree of /repo (so that /repo itself stays untouched and other checks can run meanwhile). Prints one line per seed.
W=${1:-/tmp/repo_seedall}
FILTER=${2:-.}
export GOFLAGS=-mod=mod GOPROXY=off GOSUMDB=off GOTOOLCHAIN=local
git -C /repo worktree remove --force $W 2>/dev/null
git -C /repo worktree add --detach $W HEAD -q || exit 9
cd /verif
for d in /verif/seeded/*/; do
  id=$(basename $d)
  echo "$id" | grep -Eq "$FILTER" || continue
  prop=$(python3 -c "import json;print(json.load(open('$d/meta.json'))['property'])")
  alt=$(python3 -c "import json;print(json.load(open('$d/meta.json')).get('check_property',''))")
  [ -n "$alt" ] && prop=$alt
  git -C $W checkout -q -- . && git -C $W apply $d/patch.diff || { echo "$id: patch does not apply"; continue; }
  s=$(date +%s)
  VERIF_REPO=$W ./check $prop quick > /tmp/seedall_$id.log 2>&1
  rc=$?
  echo "$id: $prop rc=$rc $(grep -c '^VIOLATION' /tmp/seedall_$id.log) violation line(s) $(( $(date +%s) - s ))s"
done
git -C $W checkout -q -- .
git -C /repo worktree remove --force $W
